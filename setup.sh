#!/bin/sh
# Offline setup: pre-build the third-party dependencies of each crate under Kani so that
# checks only recompile xcp's own crates.  Disposable; checks work (slower) without it.
set -e
cd "$(dirname "$0")"
export CARGO_NET_OFFLINE=true
exec /opt/veriftools/pyvenv/bin/python lib/setup_seed.py "$@"
