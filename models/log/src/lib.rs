//! Verification model of the `log` crate: every macro expands to nothing.
//! No property of xcp is about log text; formatting machinery is what
//! drowns symbolic execution (DESIGN.md §2.1).
#![no_std]

#[derive(Clone, Copy, Debug, PartialEq, Eq, PartialOrd, Ord, Hash)]
pub enum Level { Error = 1, Warn, Info, Debug, Trace }

#[derive(Clone, Copy, Debug, PartialEq, Eq, PartialOrd, Ord, Hash)]
pub enum LevelFilter { Off, Error, Warn, Info, Debug, Trace }

#[macro_export]
macro_rules! log { ($($t:tt)*) => {{}}; }
#[macro_export]
macro_rules! error { ($($t:tt)*) => {{}}; }
#[macro_export]
macro_rules! warn { ($($t:tt)*) => {{}}; }
#[macro_export]
macro_rules! info { ($($t:tt)*) => {{}}; }
#[macro_export]
macro_rules! debug { ($($t:tt)*) => {{}}; }
#[macro_export]
macro_rules! trace { ($($t:tt)*) => {{}}; }
#[macro_export]
macro_rules! log_enabled { ($($t:tt)*) => { false }; }

pub fn set_max_level(_l: LevelFilter) {}
pub fn max_level() -> LevelFilter { LevelFilter::Off }
