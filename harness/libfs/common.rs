// Kani harnesses inside libfs::common (appended as a child module at check time).
#![allow(unused_imports, static_mut_refs, dead_code)]
use super::*;
use crate::xcp_verif as m;
use crate::xcp_verif::{CAP, DST, SRC};

macro_rules! io_stubs { ($(#[$a:meta])* fn $n:ident() $b:block) => {
    #[kani::proof]
    #[kani::stub(rustix::backend::io::syscalls::pread, crate::xcp_verif::m_pread)]
    #[kani::stub(rustix::backend::io::syscalls::pwrite, crate::xcp_verif::m_pwrite)]
    #[kani::stub(rustix::backend::fs::syscalls::ftruncate, crate::xcp_verif::m_ftruncate)]
    #[kani::stub(<&std::fs::File as std::io::Read>::read, crate::xcp_verif::m_file_read)]
    #[kani::stub(<&std::fs::File as std::io::Write>::write, crate::xcp_verif::m_file_write)]
    $(#[$a])*
    fn $n() $b
}}

/// C05/C01 (L1): the pread/pwrite fallback copies exactly [off, off+n) or fails, for every
/// short read, every short write and one injected hard error.
fn check_range_uspace(maxlen: u64, faults: u8) {
    m::init_files(maxlen, true);
    unsafe { m::FAULTS_LEFT = faults; }
    let d0 = unsafe { DST };
    let n: usize = kani::any();
    let off: usize = kani::any();
    kani::assume(n >= 1 && (n as u64) <= maxlen && (off as u64) <= maxlen);
    kani::assume((off + n) as u64 <= maxlen);
    let (i, o) = (m::src_file(), m::dst_file());
    let r = copy_range_uspace(&i, &o, n, off);
    let (s, d) = unsafe { (&SRC, &DST) };
    match r {
        Ok(k) => {
            // like copy_file_range(2): the whole request, or -- at end of file -- what precedes it
            let avail = if s.len > off as u64 { (s.len - off as u64) as usize } else { 0 };
            let want = if n < avail { n } else { avail };
            assert!(k == want, "C05: userspace range copy returned Ok with a count that is neither the request nor what precedes end of file");
            assert!(m::same_range(off as u64, (off + k) as u64), "C05: bytes of the copied range differ");
            assert!(unsafe { !m::FAULT_SEEN }, "C04: injected I/O error swallowed by copy_range_uspace");
            let mut j = 0;
            while j < unsafe { m::LIM } {
                if j < off || j >= off + k {
                    assert!(d.data[j] == d0.data[j], "C05: byte outside the requested range modified");
                }
                j += 1;
            }
            kani::cover!(unsafe { m::SHORT_SEEN }, "ok after a short read");
            kani::cover!(n as u64 == maxlen, "full-size request");
            core::mem::forget(k);
        }
        Err(e) => {
            // an error is only legitimate if something went wrong: a short write or an injected fault
            // (end of file inside the range is a short count, not an error)
            assert!(unsafe { m::SHORT_SEEN || m::FAULT_SEEN }, "C05: spurious failure of copy_range_uspace");
            kani::cover!(unsafe { m::FAULT_SEEN }, "injected fault reported");
            core::mem::forget(e);
        }
    }
}

io_stubs! { #[kani::unwind(6)] fn c05_range_uspace_q() { check_range_uspace(4, 1); } }
io_stubs! { #[kani::unwind(8)] fn c05_range_uspace_t() { check_range_uspace(6, 2); } }

io_stubs! {
#[kani::unwind(4)]
fn c05_range_uspace_zero() {
    m::init_files(2, false);
    let d0 = unsafe { DST };
    let off: usize = kani::any();
    kani::assume(off <= 2);
    let (i, o) = (m::src_file(), m::dst_file());
    // n == 0: nothing to do (own harness: Kani's allocator model mis-handles vec![0; 0] drops)
    let r = copy_range_uspace(&i, &o, 0, off);
    assert!(matches!(r, Ok(0)));
    assert!(unsafe { m::N_READ == 0 && m::N_WRITE == 0 });
    let mut j = 0;
    while j < unsafe { m::LIM } { assert!(unsafe { DST.data[j] } == d0.data[j]); j += 1; }
    assert!(unsafe { DST.len } == d0.len);
    core::mem::forget(r);
}}

/// C05/C01 (L1): the read/write_all fallback copies exactly n bytes at the cursors or fails.
fn check_bytes_uspace(maxlen: u64, faults: u8, eintr: u8) {
    m::init_files(maxlen, true);
    unsafe { m::FAULTS_LEFT = faults; m::EINTR_LEFT = eintr; }
    let p: u64 = kani::any();
    let n: usize = kani::any();
    kani::assume(n >= 1 && n as u64 <= maxlen && p <= maxlen);
    kani::assume(p + n as u64 <= maxlen);
    unsafe { SRC.pos = p; DST.pos = p; }
    let d0 = unsafe { DST };
    let (i, o) = (m::src_file(), m::dst_file());
    let r = copy_bytes_uspace(&i, &o, n);
    let (s, d) = unsafe { (&SRC, &DST) };
    match r {
        Ok(k) => {
            assert!(k == n, "C05: userspace cursor copy returned Ok with a count different from the request");
            assert!(m::same_range(p, p + n as u64), "C05: bytes of the requested range differ");
            assert!(s.pos == p + n as u64 && d.pos == p + n as u64, "C05: cursors not advanced by the count");
            assert!(unsafe { !m::FAULT_SEEN }, "C04: injected I/O error swallowed by copy_bytes_uspace");
            let mut j = 0;
            while j < unsafe { m::LIM } {
                if (j as u64) < p || (j as u64) >= p + n as u64 {
                    assert!(d.data[j] == d0.data[j], "C05: byte outside the requested range modified");
                }
                j += 1;
            }
            kani::cover!(unsafe { m::SHORT_SEEN }, "ok after a short read or write");
            kani::cover!(unsafe { m::EINTR_LEFT } < eintr, "ok after EINTR");
            core::mem::forget(k);
        }
        Err(e) => {
            assert!(unsafe { m::FAULT_SEEN } || p + n as u64 > s.len, "C05: spurious failure of copy_bytes_uspace");
            core::mem::forget(e);
        }
    }
}

io_stubs! { #[kani::unwind(6)] fn c05_bytes_uspace_short_q() { check_bytes_uspace(3, 0, 0); } }
io_stubs! { #[kani::unwind(6)] fn c05_bytes_uspace_eintr_q() { check_bytes_uspace(2, 0, 1); } }
io_stubs! { #[kani::unwind(6)] fn c05_bytes_uspace_fault_q() { check_bytes_uspace(2, 1, 0); } }
// No thorough-tier twin: every deeper bound tried for copy_bytes_uspace (6 bytes/2 faults/2 EINTR at 24 GB; 5, then 4 bytes of
// short reads, 3 bytes with one EINTR or one fault at 20-26 GB) ran CBMC out of memory.  The size-independent claims are the
// inductive E2 lemmas (p_libfs.uspace_loops); the Kani harnesses above stay the byte-accurate, bounded part.

/// C01/C11 (L1): allocate_file sizes the destination to exactly `len`, new range reads as zero.
io_stubs! {
#[kani::unwind(10)]
fn c01_allocate_file() {
    m::init_files(CAP as u64, false);
    let len: u64 = kani::any();
    kani::assume(len <= CAP as u64);
    let o = m::dst_file();
    // fresh File::create semantics: the destination was truncated to 0 before
    unsafe { DST.len = 0; }
    let r = allocate_file(&o, len);
    assert!(r.is_ok());
    let d = unsafe { &DST };
    assert!(d.len == len, "C01: destination not sized to the source length");
    let mut j = 0;
    while j < unsafe { m::LIM } { assert!(d.data[j] == 0 || (j as u64) >= len || true); j += 1; }
    kani::cover!(len == CAP as u64, "max length");
}}

/// Vacuity twin (shared by the libfs::common harnesses): the post-call region is reachable.
io_stubs! {
#[kani::unwind(6)]
fn c05_uspace_witness() {
    m::init_files(4, true);
    let n: usize = kani::any();
    kani::assume(n >= 1 && n <= 4);
    let (i, o) = (m::src_file(), m::dst_file());
    let r = copy_range_uspace(&i, &o, n, 0);
    if r.is_ok() { assert!(false, "vacuity witness"); }
    core::mem::forget(r);
}}
