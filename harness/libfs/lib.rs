// Kernel model for the libfs-level (L1) Kani harnesses.  Child module of the libfs
// crate root, so every harness module can reach it as `crate::xcp_verif::*`.
//
// Two regular files (a source and a destination) of at most CAP bytes each, with
// per-descriptor cursors and a per-byte hole map.  Every stub returns *any* value
// its syscall contract allows; the choices are solver variables.
#![allow(dead_code, static_mut_refs, unused_imports)]

use rustix::fd::{AsRawFd, BorrowedFd};
use rustix::fs::SeekFrom;
use rustix::io::Errno;
use std::fs::File;
use std::mem::ManuallyDrop;
use std::os::fd::FromRawFd;

pub const CAP: usize = 8;
pub const FD_SRC: i32 = 100;
pub const FD_DST: i32 = 101;

#[derive(Clone, Copy)]
pub struct FileM {
    pub data: [u8; CAP],
    pub hole: [bool; CAP], // true: byte lies in a hole (reads as zero, SEEK_DATA skips it)
    pub len: u64,
    pub pos: u64,
}

pub static mut SRC: FileM = FileM { data: [0; CAP], hole: [false; CAP], len: 0, pos: 0 };
pub static mut DST: FileM = FileM { data: [0; CAP], hole: [false; CAP], len: 0, pos: 0 };

// --- bookkeeping the assertions read back
pub static mut N_CFR: u32 = 0; // copy_file_range calls
pub static mut N_READ: u32 = 0;
pub static mut N_WRITE: u32 = 0;
pub static mut SHORT_SEEN: bool = false; // some call moved fewer bytes than asked
pub static mut FAULT_SEEN: bool = false; // some call returned an injected error
pub static mut CFR_MODE: u8 = 0; // 0: works, 1: ENOSYS, 2: EPERM, 3: EXDEV, 4: hard error (EIO), 5: any of these per call
pub static mut FAULTS_LEFT: u8 = 0; // budget of injected hard errors on read/write/seek/truncate
pub static mut EINTR_LEFT: u8 = 0; // budget of EINTR answers on read()
pub static mut KCAP: u64 = u64::MAX; // kernel per-call transfer cap (>= 1)
pub static mut WROTE_LO: u64 = u64::MAX; // smallest / largest destination offset ever written
pub static mut WROTE_HI: u64 = 0;
/// concrete per-harness bound on file size: model loops run exactly LIM times
pub static mut LIM: usize = CAP;

pub fn src_file() -> ManuallyDrop<File> {
    ManuallyDrop::new(unsafe { File::from_raw_fd(FD_SRC) })
}
pub fn dst_file() -> ManuallyDrop<File> {
    ManuallyDrop::new(unsafe { File::from_raw_fd(FD_DST) })
}

/// Arbitrary source of length <= maxlen (<= CAP), arbitrary bytes; holes optional.
pub fn init_files(maxlen: u64, with_holes: bool) {
    unsafe {
        assert!(maxlen <= CAP as u64);
        LIM = maxlen as usize;
        let l: u64 = kani::any();
        kani::assume(l <= maxlen);
        SRC.len = l;
        SRC.data = kani::any();
        SRC.pos = 0;
        let mut i = 0;
        while i < LIM {
            let h: bool = if with_holes { kani::any() } else { false };
            SRC.hole[i] = h && (i as u64) < l;
            if SRC.hole[i] || (i as u64) >= l {
                SRC.data[i] = 0;
            }
            i += 1;
        }
        // destination: arbitrary prior content and length
        DST.data = kani::any();
        DST.len = kani::any();
        kani::assume(DST.len <= maxlen);
        DST.pos = 0;
        DST.hole = [false; CAP];
        let k: u64 = kani::any();
        kani::assume(k >= 1);
        KCAP = k;
    }
}

fn fm(fd: BorrowedFd<'_>) -> &'static mut FileM {
    let r = fd.as_raw_fd();
    assert!(r == FD_SRC || r == FD_DST, "model: unknown descriptor");
    unsafe { if r == FD_SRC { &mut SRC } else { &mut DST } }
}

fn hard_errno() -> Errno {
    let c: u8 = kani::any();
    match c % 5 {
        0 => Errno::IO,
        1 => Errno::NOSPC,
        2 => Errno::BADF,
        3 => Errno::INVAL,
        _ => Errno::FBIG,
    }
}

fn inject() -> bool {
    unsafe {
        if FAULTS_LEFT > 0 && kani::any() {
            FAULTS_LEFT -= 1;
            FAULT_SEEN = true;
            return true;
        }
    }
    false
}

fn put(dst: &mut FileM, off: u64, b: u8) {
    // writes beyond CAP cannot happen for files <= CAP; a write there is a model escape
    assert!(off < unsafe { LIM } as u64, "model: write beyond the modelled file size");
    dst.data[off as usize] = b;
    dst.hole[off as usize] = false;
    if off + 1 > dst.len {
        dst.len = off + 1;
    }
    unsafe {
        if off < WROTE_LO { WROTE_LO = off; }
        if off + 1 > WROTE_HI { WROTE_HI = off + 1; }
    }
}

fn get(src: &FileM, off: u64) -> u8 {
    if off < src.len && !src.hole[off as usize] { src.data[off as usize] } else { 0 }
}

// ---------------------------------------------------------------- syscall stubs

pub fn m_copy_file_range(
    fd_in: BorrowedFd<'_>,
    off_in: Option<&mut u64>,
    fd_out: BorrowedFd<'_>,
    off_out: Option<&mut u64>,
    len: usize,
) -> rustix::io::Result<usize> {
    unsafe {
        N_CFR += 1;
        let mode = if CFR_MODE == 5 { let m: u8 = kani::any(); m % 5 } else { CFR_MODE };
        match mode {
            1 => return Err(Errno::NOSYS),
            2 => return Err(Errno::PERM),
            3 => return Err(Errno::XDEV),
            4 => { FAULT_SEEN = true; return Err(hard_errno()); }
            _ => {}
        }
    }
    assert!(fd_in.as_raw_fd() == FD_SRC && fd_out.as_raw_fd() == FD_DST, "model: copy direction");
    let (src, dst) = unsafe { (&mut SRC, &mut DST) };
    let ipos = match &off_in { Some(o) => **o, None => src.pos };
    let opos = match &off_out { Some(o) => **o, None => dst.pos };
    let avail = if ipos < src.len { src.len - ipos } else { 0 };
    let mut max = len as u64;
    if avail < max { max = avail; }
    if unsafe { KCAP } < max { max = unsafe { KCAP }; }
    if max == 0 {
        return Ok(0);
    }
    let k: u64 = kani::any();
    kani::assume(k >= 1 && k <= max);
    if k < len as u64 { unsafe { SHORT_SEEN = true; } }
    let mut i: u64 = 0;
    while i < unsafe { LIM } as u64 {
        if i < k {
            let b = get(src, ipos + i);
            put(dst, opos + i, b);
        }
        i += 1;
    }
    match off_in { Some(o) => *o = ipos + k, None => src.pos = ipos + k }
    match off_out { Some(o) => *o = opos + k, None => dst.pos = opos + k }
    Ok(k as usize)
}

pub unsafe fn m_pread(fd: BorrowedFd<'_>, buf: (*mut u8, usize), pos: u64) -> rustix::io::Result<usize> {
    N_READ += 1;
    if inject() { return Err(hard_errno()); }
    let f = fm(fd);
    let avail = if pos < f.len { f.len - pos } else { 0 };
    let mut max = buf.1 as u64;
    if avail < max { max = avail; }
    if max == 0 { return Ok(0); }
    let k: u64 = kani::any();
    kani::assume(k >= 1 && k <= max);
    if k < buf.1 as u64 { SHORT_SEEN = true; }
    let mut i: u64 = 0;
    while i < LIM as u64 {
        if i < k { *buf.0.add(i as usize) = get(f, pos + i); }
        i += 1;
    }
    Ok(k as usize)
}

pub fn m_pwrite(fd: BorrowedFd<'_>, buf: &[u8], pos: u64) -> rustix::io::Result<usize> {
    unsafe { N_WRITE += 1; }
    if inject() { return Err(hard_errno()); }
    assert!(fd.as_raw_fd() == FD_DST, "model: write to the source descriptor");
    let f = fm(fd);
    let k: usize = kani::any();
    kani::assume(k <= buf.len());
    if k < buf.len() { unsafe { SHORT_SEEN = true; } }
    let mut i = 0;
    while i < unsafe { LIM } {
        if i < k { put(f, pos + i as u64, buf[i]); }
        i += 1;
    }
    Ok(k)
}

// <&File as Read>::read / <&File as Write>::write (cursor based)
pub fn m_file_read<'a>(s: &mut &'a File, buf: &mut [u8]) -> std::io::Result<usize> where 'a: 'a {
    unsafe {
        N_READ += 1;
        if EINTR_LEFT > 0 && kani::any() {
            EINTR_LEFT -= 1;
            return Err(std::io::Error::from(std::io::ErrorKind::Interrupted));
        }
    }
    if inject() { return Err(std::io::Error::from_raw_os_error(5)); }
    let r = s.as_raw_fd();
    assert!(r == FD_SRC, "model: read() on a descriptor that is not the source");
    let f = unsafe { &mut SRC };
    let pos = f.pos;
    let avail = if pos < f.len { f.len - pos } else { 0 };
    let mut max = buf.len() as u64;
    if avail < max { max = avail; }
    if max == 0 { return Ok(0); }
    let k: u64 = kani::any();
    kani::assume(k >= 1 && k <= max);
    if k < buf.len() as u64 { unsafe { SHORT_SEEN = true; } }
    let mut i: u64 = 0;
    while i < unsafe { LIM } as u64 {
        if i < k { buf[i as usize] = get(f, pos + i); }
        i += 1;
    }
    f.pos = pos + k;
    Ok(k as usize)
}

pub fn m_file_write<'a>(s: &mut &'a File, buf: &[u8]) -> std::io::Result<usize> where 'a: 'a {
    unsafe { N_WRITE += 1; }
    if inject() { return Err(std::io::Error::from_raw_os_error(28)); }
    let r = s.as_raw_fd();
    assert!(r == FD_DST, "model: write() on a descriptor that is not the destination");
    let f = unsafe { &mut DST };
    // POSIX: a successful write of n > 0 bytes transfers at least one byte
    let k: usize = kani::any();
    kani::assume(k <= buf.len() && (k >= 1 || buf.len() == 0));
    if k < buf.len() { unsafe { SHORT_SEEN = true; } }
    let pos = f.pos;
    let mut i = 0;
    while i < unsafe { LIM } {
        if i < k { put(f, pos + i as u64, buf[i]); }
        i += 1;
    }
    f.pos = pos + k as u64;
    Ok(k)
}

pub fn m_seek(fd: BorrowedFd<'_>, pos: SeekFrom) -> rustix::io::Result<u64> {
    if inject() { return Err(hard_errno()); }
    let f = fm(fd);
    match pos {
        SeekFrom::Start(p) => { f.pos = p; Ok(p) }
        SeekFrom::Data(p) => {
            // next offset >= p holding data; ENXIO if none before EOF
            if p >= f.len { return Err(Errno::NXIO); }
            let mut i = 0u64;
            let mut found: Option<u64> = None;
            while i < unsafe { LIM } as u64 {
                if found.is_none() && i >= p && i < f.len && !f.hole[i as usize] { found = Some(i); }
                i += 1;
            }
            match found { Some(o) => { f.pos = o; Ok(o) } None => Err(Errno::NXIO) }
        }
        SeekFrom::Hole(p) => {
            // next offset >= p lying in a hole; the end of file is an implicit hole
            if p >= f.len { return Err(Errno::NXIO); }
            let mut i = 0u64;
            let mut found: Option<u64> = None;
            while i < unsafe { LIM } as u64 {
                if found.is_none() && i >= p && i < f.len && f.hole[i as usize] { found = Some(i); }
                i += 1;
            }
            let o = match found { Some(o) => o, None => f.len };
            f.pos = o;
            Ok(o)
        }
        _ => { assert!(false, "model: unexpected whence"); Ok(0) }
    }
}

pub fn m_ftruncate(fd: BorrowedFd<'_>, length: u64) -> rustix::io::Result<()> {
    if inject() { return Err(hard_errno()); }
    assert!(fd.as_raw_fd() == FD_DST, "model: ftruncate on the source");
    let f = fm(fd);
    kani::assume(length <= unsafe { LIM } as u64);
    let mut i = 0;
    while i < unsafe { LIM } {
        if (i as u64) >= f.len || (i as u64) >= length {
            f.data[i] = 0;
            f.hole[i] = (i as u64) < length; // newly exposed range is a hole
        }
        i += 1;
    }
    f.len = length;
    Ok(())
}

/// dst[lo..hi) equals src[lo..hi) (holes read as zero)
pub fn same_range(lo: u64, hi: u64) -> bool {
    let (s, d) = unsafe { (&SRC, &DST) };
    let mut ok = true;
    let mut i = 0u64;
    while i < unsafe { LIM } as u64 {
        if i >= lo && i < hi && get(s, i) != get(d, i) { ok = false; }
        i += 1;
    }
    ok
}
