#!/bin/sh
# runs the repository's pinned test suite (BASELINE.json command) and prints pass/fail counts
cd ${1:-/repo} && CARGO_NET_OFFLINE=true cargo nextest run --workspace --no-fail-fast --tool-config-file pb:/w/lib/nextest.toml --profile pb --test-threads 8 --offline 2>&1 | grep -E "^\s+(Summary|FAIL)|tests run" | sort | uniq -c | sort -rn | head -n 20
