#!/bin/bash
# Observation O1 (outside C07's quantifier: needs a concurrent writer): when the source shrinks below the st_size read at
# open, copy_file_range returns 0 and CopyHandle::copy_bytes (`while written < len`) never advances -- xcp spins.
# Usage: truncate_during_copy.sh [<built tree, default /repo>]; prints the exit status (124 = still running after 30 s).
T=${1:-/repo}; W=$(mktemp -d /var/tmp/o1.XXXXXX); cd $W || exit 2
head -c 1500M /dev/zero | tr '\0' 'x' > big; sync
timeout 30 $T/target/debug/xcp --block-size 64KB big dst & P=$!
sleep 0.1; truncate -s 1M big
wait $P; rc=$?; echo "xcp exit=$rc (124 = killed by timeout: it was spinning)"
cd /; rm -rf $W
[ $rc -eq 124 ] && exit 1 || exit 0
