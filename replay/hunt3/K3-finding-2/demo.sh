#!/bin/bash
# C15: --reflink=auto must fall back to a byte-exact copy and exit 0 when
# cloning is unavailable.  The FICLONE ioctl answered with ENOTTY or ENOSYS
# (the classic "this ioctl is not implemented here" errnos) makes xcp fail.
# exits 1 if violated.
TREE=${1:?usage: demo.sh <built tree>}
X="$TREE/target/debug/xcp"
export RUST_BACKTRACE=0
W=$(mktemp -d /var/tmp/k3-f2.XXXXXX) || exit 2
trap 'rm -rf "$W"' EXIT
cd "$W" || exit 2
mkdir src; head -c 200000 /dev/urandom > src/a; echo small > src/b
bad=0
# control: EOPNOTSUPP is handled
for drv in parfile parblock; do
  for e in EOPNOTSUPP ENOTTY ENOSYS; do
    rm -rf dst
    # --no-progress: the only ioctl issued is then FICLONE (checked below)
    timeout 60 strace -f -o tr.$drv.$e -e trace=ioctl -e inject=ioctl:error=$e \
        "$X" -r --no-progress --driver $drv --reflink=auto src dst >out.log 2>&1
    rc=$?
    nonclone=$(grep -c 'ioctl(' tr.$drv.$e); clone=$(grep -c FICLONE tr.$drv.$e)
    same=no; diff -r src dst >/dev/null 2>&1 && same=yes
    echo "$drv FICLONE->$e: exit=$rc identical=$same (ioctls: $nonclone, of which FICLONE: $clone) $(tail -1 out.log)"
    if [ "$e" = EOPNOTSUPP ]; then
      [ $rc -eq 0 ] && [ $same = yes ] || { echo "control failed"; exit 2; }
    else
      [ $rc -eq 0 ] && [ $same = yes ] || bad=1
    fi
  done
done
[ $bad -eq 1 ] && echo "VIOLATED: reflink=auto did not fall back" || echo "holds"
exit $bad
