#!/bin/bash
# finding-1: parblock exits 0 although the source ended before the
# announced length (regular file whose st_size overstates its content,
# e.g. any sysfs attribute).  Destination is NOT byte-identical.
# usage: demo.sh <built-tree>      exit 1 = property violated, 0 = holds
TREE=${1:?tree}
X=$TREE/target/debug/xcp
export RUST_BACKTRACE=0
[ -x "$X" ] || { echo "no binary at $X"; exit 2; }

W=$(mktemp -d /var/tmp/k1-f1.XXXXXX) || exit 2
trap 'rm -rf "$W"' EXIT

# Find a regular sysfs file whose st_size is larger than what can be read.
SRC=
for f in /sys/class/net/lo/mtu /sys/devices/system/cpu/online \
         /sys/kernel/mm/transparent_hugepage/enabled /sys/kernel/osrelease; do
    [ -f "$f" ] && [ -r "$f" ] || continue
    sz=$(stat -c %s "$f"); real=$(cat "$f" | wc -c)
    if [ "$sz" -gt "$real" ] && [ "$real" -gt 0 ]; then SRC=$f; break; fi
done
if [ -z "$SRC" ]; then echo "no suitable sysfs file here; cannot test"; exit 0; fi
cat "$SRC" > "$W/expected"
echo "source $SRC: st_size=$(stat -c %s "$SRC"), readable bytes=$(stat -c %s "$W/expected")"

violated=0
for args in "--no-progress" "--block-size 1MB" "--block-size 3 -w 1"; do
    rm -f "$W/dst"
    timeout 60 "$X" $args --driver parblock "$SRC" "$W/dst" >"$W/log" 2>&1
    rc=$?
    if [ $rc -eq 0 ]; then
        if cmp -s "$W/expected" "$W/dst"; then
            echo "parblock $args: rc=0, identical"
        else
            echo "parblock $args: rc=0 but destination has $(stat -c %s "$W/dst") bytes, source has $(stat -c %s "$W/expected") -> VIOLATION"
            violated=1
        fi
    else
        echo "parblock $args: rc=$rc (non-zero, acceptable)"
    fi
done

# For contrast: parfile notices ("Source file ended prematurely") and fails.
rm -f "$W/dst"
timeout 60 "$X" --no-progress --driver parfile "$SRC" "$W/dst" >"$W/log" 2>&1
echo "parfile (contrast): rc=$?"

exit $violated
