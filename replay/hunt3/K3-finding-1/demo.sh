#!/bin/bash
# --gitignore with a source that is not a directory (regular file, FIFO,
# char device, or -L link to a file): parse_ignore() stats <source>/.gitignore,
# gets ENOTDIR and fails the whole run.  exits 1 if violated.
TREE=${1:?usage: demo.sh <built tree>}
X="$TREE/target/debug/xcp"
export RUST_BACKTRACE=0
W=$(mktemp -d /var/tmp/k3-f1.XXXXXX) || exit 2
trap 'rm -rf "$W"' EXIT
cd "$W" || exit 2
echo data > reg; mkfifo fifo; mknod chr c 1 3; ln -s reg lnk; mkdir out
bad=0
chk() { # desc, rc, test...
  local d=$1 rc=$2; shift 2
  if [ $rc -ne 0 ] || ! "$@"; then echo "VIOLATED: $d (exit $rc)"; bad=1; else echo "ok: $d"; fi
}
for drv in parfile parblock; do
  rm -rf out; mkdir out
  timeout 20 "$X" --driver $drv --gitignore fifo out/fifo;  chk "$drv: sole-source FIFO with --gitignore" $? test -p out/fifo
  timeout 20 "$X" --driver $drv --gitignore chr out/chr;    chk "$drv: sole-source char device with --gitignore" $? test -c out/chr
  timeout 20 "$X" --driver $drv --gitignore reg out/reg;    chk "$drv: sole-source regular file with --gitignore" $? cmp -s reg out/reg
  timeout 20 "$X" --driver $drv --gitignore -L lnk out/lnk; chk "$drv: -L link to a file with --gitignore" $? cmp -s reg out/lnk
  # control: the same without --gitignore works
  timeout 20 "$X" --driver $drv fifo out/fifo2 || { echo "control failed"; exit 2; }
done
exit $bad
