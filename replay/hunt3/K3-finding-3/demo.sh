#!/bin/bash
# C07 (library clients): libxcp accepts Config { block_size: 0 } (public field,
# never validated; the --block-size 0 repair lives only in src/main.rs).  With
# the parfile driver and the NoopUpdater the copy call spins for ever in
# CopyHandle::copy_bytes().  exits 1 if the call does not return.
TREE=${1:?usage: demo.sh <built tree>}
export RUST_BACKTRACE=0
W=$(mktemp -d /var/tmp/k3-f3.XXXXXX) || exit 2
trap 'rm -rf "$W"' EXIT
mkdir -p "$W/probe/src"
cat > "$W/probe/Cargo.toml" <<EOT
[package]
name = "probe3"
version = "0.1.0"
edition = "2021"

[dependencies]
libxcp = { path = "$TREE/libxcp" }

[workspace]
EOT
cp "$TREE/Cargo.lock" "$W/probe/"
cat > "$W/probe/src/main.rs" <<'EOT'
use std::path::PathBuf;
use std::sync::Arc;
use libxcp::config::Config;
use libxcp::drivers::{load_driver, Drivers};
use libxcp::feedback::{NoopUpdater, StatusUpdater};

fn main() {
    let a: Vec<String> = std::env::args().collect();
    let bs: u64 = a[1].parse().unwrap();
    let config = Arc::new(Config { block_size: bs, workers: 2, ..Config::default() });
    let d = load_driver(Drivers::ParFile, &config).unwrap();
    let stats: Arc<dyn StatusUpdater> = Arc::new(NoopUpdater);
    let r = d.copy(vec![PathBuf::from(&a[2])], &PathBuf::from(&a[3]), stats);
    println!("copy() returned, ok={}", r.is_ok());
}
EOT
( cd "$W/probe" && cargo build --offline >"$W/build.log" 2>&1 ) || { cat "$W/build.log"; exit 2; }
echo hello > "$W/in.txt"
# control: block size 1 returns
timeout 20 "$W/probe/target/debug/probe3" 1 "$W/in.txt" "$W/out1.txt" || { echo "control failed"; exit 2; }
cmp -s "$W/in.txt" "$W/out1.txt" || { echo "control failed (content)"; exit 2; }
timeout -s KILL 20 "$W/probe/target/debug/probe3" 0 "$W/in.txt" "$W/out0.txt"
rc=$?
if [ $rc -eq 137 ] || [ $rc -eq 124 ]; then
  echo "VIOLATED: copy() of a 6-byte file with block_size 0 had not returned after 20s (killed)"
  exit 1
fi
echo "copy() returned (exit $rc): holds"
exit 0
