#!/bin/bash
# eval_seed.sh <patch.diff> <prop> [tier] : run a property's check against a scratch worktree of /repo with the patch applied
# (never touches /repo itself; evidence and replay files of such runs go to /var/tmp/xcp-verif-eval/evidence, not /verif/evidence)
P=$1; PROP=$2; TIER=${3:-quick}
WT=/var/tmp/evalwt-$$
git -C /repo worktree add -q --detach $WT HEAD || exit 2
git -C $WT apply $P || { echo "patch does not apply"; git -C /repo worktree remove --force $WT; exit 2; }
cd /verif; XCP_VERIF_SCRATCH=/var/tmp/xcp-verif-eval/scratch XCP_EVIDENCE_DIR=/var/tmp/xcp-verif-eval/evidence XCP_REPO=$WT ./check $PROP --tier $TIER 2>&1 | grep -v "^\[xv\].* ok \|^KNOWN\|^NOTE" | tail -n ${LINES_OUT:-4} | cut -c1-300
git -C /repo worktree remove --force $WT
