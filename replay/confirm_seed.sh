#!/bin/bash
# confirm_seed.sh <id> <outdir> : independently confirm a seeded change in a fresh scratch worktree of /repo
# (compiles, pinned test-suite unchanged, demo fails with the change and passes without), then file it under /verif/seeded/<name>/
set -u
ID=$1; OUT=$2; NAME=${3:-$ID}
WT=/var/tmp/seedwt-$NAME
rm -rf $WT; git -C /repo worktree prune; git -C /repo worktree add -q --detach $WT HEAD || exit 2
cd $WT
export CARGO_NET_OFFLINE=true RUST_BACKTRACE=0
res() { echo "$1" >> $OUT/CONFIRM.txt; }
: > $OUT/CONFIRM.txt
cargo build --offline -q 2>/dev/null; bash $OUT/demo.sh $WT > $OUT/demo-base.log 2>&1; BASE=$?
res "demo on unmodified tree: exit $BASE"
git apply $OUT/patch.diff || { res "patch does not apply"; exit 2; }
if cargo build --offline -q 2>$OUT/build.log; then res "build with change: ok"; else res "build with change: FAILED"; fi
T=$(cargo nextest run --workspace --no-fail-fast --tool-config-file pb:/w/lib/nextest.toml --profile pb --test-threads 8 --offline 2>&1 | grep -E "tests run" | tail -n 1)
res "tests with change: $T"
bash $OUT/demo.sh $WT > $OUT/demo-mut.log 2>&1; MUT=$?
res "demo on modified tree: exit $MUT"
cd /; git -C /repo worktree remove --force $WT
if [ $BASE -eq 0 ] && [ $MUT -eq 1 ] && echo "$T" | grep -q "126 passed, 7 failed"; then
  mkdir -p /verif/seeded/$NAME; cp -r $OUT/patch.diff $OUT/demo.sh $OUT/NOTES.md $OUT/CONFIRM.txt /verif/seeded/$NAME/ 2>/dev/null
  [ -d $OUT/probe ] && rsync -a --exclude target $OUT/probe /verif/seeded/$NAME/
  echo "CONFIRMED $NAME"
else
  echo "NOT CONFIRMED $NAME (base=$BASE mut=$MUT tests=$T)"
fi
