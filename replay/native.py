#!/opt/veriftools/pyvenv/bin/python
"""Native reproductions of the recorded defects against the real xcp binary built from a given tree.
usage: native.py <repo-dir> [finding ...]     exit 0: none of the selected defects reproduces, 1: some do
Each scenario builds its input in a fresh temp dir, runs target/debug/xcp and inspects the result."""
import os, shutil, stat, subprocess, sys, tempfile

def build(repo):
    r = subprocess.run(["cargo", "build", "--offline", "-q"], cwd=repo, env=dict(os.environ, CARGO_NET_OFFLINE="true"))
    if r.returncode != 0:
        sys.exit("build failed")
    return os.path.join(repo, "target", "debug", "xcp")

def run(xcp, args, cwd):
    p = subprocess.run([xcp] + args, cwd=cwd, env=dict(os.environ, RUST_BACKTRACE="0"), capture_output=True, text=True)
    return p.returncode, p.stderr[-300:]

def f1_self_copy(xcp, d):
    """C03: `xcp f ./f`, hard link and symlink aliases must not zero the source"""
    bad = []
    for how in ("spelling", "hardlink", "symlink", "owndir"):
        w = os.path.join(d, how); os.makedirs(w)
        src = os.path.join(w, "f"); open(src, "w").write("precious-data\n")
        if how == "spelling": args = ["f", "./f"]
        elif how == "hardlink": os.link(src, os.path.join(w, "h")); args = ["f", "h"]
        elif how == "symlink": os.symlink("f", os.path.join(w, "s")); args = ["f", "s"]
        else: args = ["f", "."]
        rc, err = run(xcp, args, w)
        if open(src).read() != "precious-data\n":
            bad.append("%s: source now %r (exit %d)" % (how, open(src).read()[:20], rc))
    return bad

def f2_symlink_result(xcp, d):
    """C02/C04: parfile must report a link that cannot be (re)created"""
    s = os.path.join(d, "s"); os.makedirs(s); os.symlink("target-v1", os.path.join(s, "l"))
    rc1, _ = run(xcp, ["-r", "s", "out"], d)
    os.remove(os.path.join(s, "l")); os.symlink("target-v2", os.path.join(s, "l"))
    rc2, _ = run(xcp, ["-r", "-T", "s", "out"], d)
    txt = os.readlink(os.path.join(d, "out", "l"))
    return ["re-copy exit %d but link text is %r" % (rc2, txt)] if rc2 == 0 and txt != "target-v2" else []

def f3_device_number(xcp, d):
    """C14: a character device keeps its device number"""
    if os.geteuid() != 0:
        return []
    n = os.path.join(d, "null"); os.mknod(n, 0o644 | stat.S_IFCHR, os.makedev(1, 3))
    rc, err = run(xcp, ["null", "copy"], d)
    c = os.path.join(d, "copy")
    if rc != 0 or not os.path.exists(c):
        return ["copy failed rc=%d %s" % (rc, err)]
    st = os.lstat(c)
    return [] if (os.major(st.st_rdev), os.minor(st.st_rdev)) == (1, 3) and stat.S_ISCHR(st.st_mode) else \
        ["device 1:3 copied as %d:%d" % (os.major(st.st_rdev), os.minor(st.st_rdev))]

def f5_short_copy(xcp, d):
    """C01/C05: parblock with a block larger than the kernel's per-call limit (writes a fully allocated ~2.2 GB file)"""
    src = os.path.join(d, "big")
    limit = 0x7ffff000
    size = limit + (64 << 20)
    chunk = bytes(range(256)) * 4096          # 1 MiB of non-zero pattern
    with open(src, "wb") as f:
        n = 0
        while n < size:
            f.write(chunk[: min(len(chunk), size - n)])
            n += len(chunk)
    rc, err = run(xcp, ["--driver", "parblock", "--no-progress", "--reflink", "never", "big", "copy"], d)
    if rc != 0:
        return []
    bad = []
    with open(os.path.join(d, "copy"), "rb") as g, open(src, "rb") as f:
        for off in (0, limit - 4096, limit + 100, size - 4096):
            g.seek(off); f.seek(off)
            if g.read(4096) != f.read(4096):
                bad.append("exit 0 but bytes at 0x%x differ" % off)
    return bad

def f8_deref_dir_link(xcp, d):
    """C13: -L copies what a link to a directory points to"""
    os.makedirs(os.path.join(d, "real")); open(os.path.join(d, "real", "inside"), "w").write("x")
    os.makedirs(os.path.join(d, "s")); os.symlink("../real", os.path.join(d, "s", "dl"))
    rc, err = run(xcp, ["-r", "-L", "s", "out"], d)
    ok = os.path.isfile(os.path.join(d, "out", "dl", "inside")) and not os.path.islink(os.path.join(d, "out", "dl"))
    return [] if ok or rc != 0 else ["exit 0 but out/dl/inside is missing (linked directory copied as an empty directory)"]

def f9_setid_ownership(xcp, d):
    """C10: --ownership keeps set-uid/set-gid"""
    if os.geteuid() != 0:
        return []
    f = os.path.join(d, "su"); open(f, "w").write("x"); os.chown(f, 1234, 1234); os.chmod(f, 0o6755)
    rc, err = run(xcp, ["--ownership", "su", "copy"], d)
    m = stat.S_IMODE(os.lstat(os.path.join(d, "copy")).st_mode)
    return [] if m == 0o6755 or rc != 0 else ["mode 06755 copied as %o" % m]

def f4b_prefix(xcp, d):
    """C09: prefix-related names are not backups"""
    w = os.path.join(d, "p"); os.makedirs(w)
    open(os.path.join(w, "a"), "w").write("old"); open(os.path.join(w, "a.txt.~5~"), "w").write("other")
    open(os.path.join(w, "src"), "w").write("new")
    rc, _ = run(xcp, ["--backup=auto", "src", "a"], w)
    if os.path.exists(os.path.join(w, "a.~6~")) or os.path.exists(os.path.join(w, "a.~1~")):
        return ["auto mode made a backup of 'a' because of unrelated 'a.txt.~5~': %s" % sorted(os.listdir(w))]
    return []

def f4a_non_utf8(xcp, d):
    """C09: names with non-UTF-8 bytes keep every version (directory copy, so the name never passes through clap)"""
    w = os.fsencode(d)
    srcd = os.path.join(w, b"s"); os.makedirs(srcd)
    name = b"f\xff"
    for v in (b"v1", b"v2", b"v3"):
        open(os.path.join(srcd, name), "wb").write(v)
        rc, err = run(xcp, ["-r", "-T", "--backup=numbered", "s", "out"], d)
    names = sorted(os.listdir(os.path.join(w, b"out")))
    have = {n: open(os.path.join(w, b"out", n), "rb").read() for n in names}
    if have.get(name + b".~1~") == b"v1" and have.get(name + b".~2~") == b"v2" and have.get(name) == b"v3":
        return []
    return ["versions lost: destination has %r" % have]

def f10_special_alias(xcp, d):
    """C03: `xcp ./p p` for a FIFO (both drivers): the Special arm must not unlink the source"""
    bad = []
    for drv in ("parfile", "parblock"):
        w = os.path.join(d, drv); os.makedirs(w)
        os.mkfifo(os.path.join(w, "p"))
        rc, err = run(xcp, ["--driver", drv, "./p", "p"], w)
        if not (os.path.lexists(os.path.join(w, "p")) and stat.S_ISFIFO(os.lstat(os.path.join(w, "p")).st_mode)):
            bad.append("%s: source FIFO gone after `xcp ./p p` (exit %d)" % (drv, rc))
    return bad

def f11_gitignore_fifo(xcp, d):
    """C07/C14: --gitignore with a FIFO named .gitignore at the source root must not block"""
    bad = []
    for drv in ("parfile", "parblock"):
        w = os.path.join(d, drv); os.makedirs(os.path.join(w, "src"))
        open(os.path.join(w, "src", "a.txt"), "w").write("x\n")
        os.mkfifo(os.path.join(w, "src", ".gitignore"))
        try:
            p = subprocess.run([xcp, "-r", "--gitignore", "--driver", drv, "src", "dst"], cwd=w, env=dict(os.environ, RUST_BACKTRACE="0"),
                               capture_output=True, text=True, timeout=10)
            if p.returncode != 0 or not os.path.exists(os.path.join(w, "dst", "a.txt")):
                bad.append("%s: exit %d, a.txt copied: %s" % (drv, p.returncode, os.path.exists(os.path.join(w, "dst", "a.txt"))))
        except subprocess.TimeoutExpired:
            bad.append("%s: still running after 10 s (blocked opening the FIFO)" % drv)
    return bad

def f12_dotdot_source(xcp, d):
    """C02: a source spelled `dir/..` must not be written next to the destination"""
    bad = []
    for drv in ("parfile", "parblock"):
        w = os.path.join(d, drv); os.makedirs(os.path.join(w, "src", "sub")); os.makedirs(os.path.join(w, "work", "out"))
        open(os.path.join(w, "src", "f"), "w").write("f\n"); open(os.path.join(w, "src", "sub", "g"), "w").write("g\n")
        rc, err = run(xcp, ["-r", "--driver", drv, "src/sub/..", "work/out"], w)
        outside = sorted(x for x in os.listdir(os.path.join(w, "work")) if x != "out")
        if outside or (rc == 0 and not os.path.exists(os.path.join(w, "work", "out", "sub", "g"))):
            bad.append("%s: exit %d, entries created outside the destination: %s" % (drv, rc, outside))
    return bad

def f13_root_symlink(xcp, d):
    """C02/C08: `xcp -r link out` (link -> directory, no -L) copies the link and nothing beneath it"""
    bad = []
    for drv in ("parfile", "parblock"):
        w = os.path.join(d, drv); os.makedirs(os.path.join(w, "src", "sub")); os.makedirs(os.path.join(w, "out", "sub"))
        open(os.path.join(w, "src", "sub", "a"), "w").write("a\n"); os.symlink("sub", os.path.join(w, "src", "ld"))
        rc, err = run(xcp, ["-r", "--workers", "1", "--driver", drv, "src/ld", "out"], w)
        if os.path.exists(os.path.join(w, "out", "sub", "a")) or not os.path.islink(os.path.join(w, "out", "ld")):
            bad.append("%s: exit %d; out/sub/a written through the new link: %s; out/ld is a link: %s" % (
                drv, rc, os.path.exists(os.path.join(w, "out", "sub", "a")), os.path.islink(os.path.join(w, "out", "ld"))))
    return bad

def _gi_tree(w, gitignore):
    os.makedirs(os.path.join(w, "src", "real"))
    open(os.path.join(w, "src", ".gitignore"), "wb").write(gitignore)
    for n in ("a", "b", "secret.key"):
        open(os.path.join(w, "src", n), "w").write(n + "\n")
    open(os.path.join(w, "src", "real", "x"), "w").write("x\n")
    os.symlink("real", os.path.join(w, "src", "cache"))

def f14_gitignore_root(xcp, d):
    """C17: `*` + `!a` must not make the whole copy vanish"""
    bad = []
    for drv in ("parfile", "parblock"):
        w = os.path.join(d, drv); _gi_tree(w, b"*\n!a\n")
        rc, err = run(xcp, ["-r", "--gitignore", "--driver", drv, "src", "out"], w)
        if rc == 0 and not os.path.exists(os.path.join(w, "out", "a")):
            bad.append("%s: exit 0 and out/a missing (root entry filtered)" % drv)
    return bad

def f15_gitignore_dirlink(xcp, d):
    """C17: `cache/` excludes directories named cache, not a symlink named cache"""
    bad = []
    for drv in ("parfile", "parblock"):
        w = os.path.join(d, drv); _gi_tree(w, b"cache/\n")
        rc, err = run(xcp, ["-r", "--gitignore", "--driver", drv, "src", "out"], w)
        if rc == 0 and not os.path.islink(os.path.join(w, "out", "cache")):
            bad.append("%s: exit 0 and the symlink out/cache is missing" % drv)
    return bad

def f16_gitignore_unreadable(xcp, d):
    """C04/C17: an undecodable .gitignore line must not silently disable the patterns after it"""
    bad = []
    for drv in ("parfile", "parblock"):
        w = os.path.join(d, drv); _gi_tree(w, b"# caf\xe9\nsecret.key\n")
        rc, err = run(xcp, ["-r", "--gitignore", "--driver", drv, "src", "out"], w)
        if rc == 0 and os.path.exists(os.path.join(w, "out", "secret.key")):
            bad.append("%s: exit 0 and the excluded secret.key was copied" % drv)
    return bad

def f17_noclobber_dangling(xcp, d):
    """C08: -n with a dangling symlink at the mapped destination must refuse, not write through the link"""
    bad = []
    for drv in ("parfile", "parblock"):
        w = os.path.join(d, drv); os.makedirs(os.path.join(w, "dest"))
        open(os.path.join(w, "f"), "w").write("new\n"); os.symlink(os.path.join(w, "outside"), os.path.join(w, "dest", "f"))
        rc, err = run(xcp, ["-n", "--driver", drv, "f", "dest/"], w)
        if rc == 0 or os.path.exists(os.path.join(w, "outside")):
            bad.append("%s: exit %d, link target created outside the destination: %s" % (drv, rc, os.path.exists(os.path.join(w, "outside"))))
    return bad

def f18_special_over_dangling(xcp, d):
    """C14: a FIFO copied onto a dangling symlink replaces it (and respects -n)"""
    bad = []
    for drv in ("parfile", "parblock"):
        w = os.path.join(d, drv); os.makedirs(w)
        os.mkfifo(os.path.join(w, "p")); os.symlink("nowhere", os.path.join(w, "o"))
        rc, err = run(xcp, ["--driver", drv, "p", "o"], w)
        if rc != 0 or not stat.S_ISFIFO(os.lstat(os.path.join(w, "o")).st_mode):
            bad.append("%s: exit %d, destination is a FIFO: %s" % (drv, rc, stat.S_ISFIFO(os.lstat(os.path.join(w, "o")).st_mode)))
    return bad

def f19_block_size_zero(xcp, d):
    """C16: --block-size 0 is rejected before anything is created"""
    bad = []
    for drv in ("parfile", "parblock"):
        w = os.path.join(d, drv); os.makedirs(w)
        open(os.path.join(w, "a"), "w").write("x\n")
        rc, err = run(xcp, ["--block-size", "0", "--driver", drv, "a", "b"], w)
        if rc == 0 or os.path.lexists(os.path.join(w, "b")):
            bad.append("%s: exit %d, destination created: %s" % (drv, rc, os.path.lexists(os.path.join(w, "b"))))
    return bad

def f20_backup_readdir_error(xcp, d):
    """C09/C04: a failing getdents64 during the backup-number scan must not make .~1~ be handed out again"""
    bad = []
    for drv in ("parfile", "parblock"):
        w = os.path.join(d, drv); os.makedirs(os.path.join(w, "d"))
        open(os.path.join(w, "src"), "w").write("v3\n"); open(os.path.join(w, "d", "f"), "w").write("v2\n")
        open(os.path.join(w, "d", "f.~1~"), "w").write("v1\n")
        p = subprocess.run(["strace", "-f", "-qq", "-o", "/dev/null", "-e", "trace=getdents64", "-e", "inject=getdents64:error=EIO:when=1",
                            xcp, "--workers", "1", "--driver", drv, "--backup=numbered", "src", "d/f"], cwd=w,
                           env=dict(os.environ, RUST_BACKTRACE="0"), capture_output=True, text=True, timeout=60)
        if open(os.path.join(w, "d", "f.~1~")).read() != "v1\n":
            bad.append("%s: exit %d, the existing backup f.~1~ was replaced" % (drv, p.returncode))
    return bad

def f21_parblock_fallback_eof(xcp, d):
    """C05/C06: parblock with copy_file_range unavailable (EXDEV) on a sparse file whose last extent runs past EOF"""
    bad = []
    w = os.path.join(d, "w"); os.makedirs(w)
    with open(os.path.join(w, "s"), "wb") as f:
        f.seek(1000000); f.write(os.urandom(5000))
    subprocess.run(["sync"])
    res = {}
    for drv in ("parfile", "parblock"):
        p = subprocess.run(["strace", "-f", "-qq", "-o", "/dev/null", "-e", "trace=copy_file_range", "-e", "inject=copy_file_range:error=EXDEV",
                            xcp, "--driver", drv, "s", "d-" + drv], cwd=w, env=dict(os.environ, RUST_BACKTRACE="0"), capture_output=True, text=True, timeout=120)
        same = os.path.exists(os.path.join(w, "d-" + drv)) and open(os.path.join(w, "s"), "rb").read() == open(os.path.join(w, "d-" + drv), "rb").read()
        res[drv] = (p.returncode, same)
    if res["parblock"] != (0, True) or res["parfile"] != (0, True):
        bad.append("exit status / identical copy per driver without copy_file_range: %r" % (res,))
    return bad

def f22_same_file_by_spelling(xcp, d):
    """C16: `xcp -r d ./d` and `xcp ../in/g f .` are rejected before anything is created"""
    bad = []
    w = os.path.join(d, "w"); os.makedirs(os.path.join(w, "d")); os.makedirs(os.path.join(w, "in")); os.makedirs(os.path.join(w, "out"))
    open(os.path.join(w, "d", "x"), "w").write("x\n"); open(os.path.join(w, "in", "g"), "w").write("g\n"); open(os.path.join(w, "out", "f"), "w").write("f\n")
    rc, err = run(xcp, ["-r", "d", "./d"], w)
    if rc == 0 or sorted(os.listdir(os.path.join(w, "d"))) != ["x"]:
        bad.append("-r d ./d: exit %d, d now holds %s" % (rc, sorted(os.listdir(os.path.join(w, "d")))[:4]))
    rc, err = run(xcp, ["../in/g", "f", "."], os.path.join(w, "out"))
    if rc == 0 or sorted(os.listdir(os.path.join(w, "out"))) != ["f"]:
        bad.append("../in/g f .: exit %d, out now holds %s" % (rc, sorted(os.listdir(os.path.join(w, "out")))))
    return bad

def f23_dir_onto_file_multi(xcp, d):
    """C16: `xcp -r a sd dest` with dest/sd a regular file is rejected before dest/a is created"""
    w = os.path.join(d, "w")
    for x in ("a", "sd", "dest"):
        os.makedirs(os.path.join(w, x))
    open(os.path.join(w, "a", "1"), "w").write("1\n"); open(os.path.join(w, "sd", "2"), "w").write("2\n"); open(os.path.join(w, "dest", "sd"), "w").write("file\n")
    rc, err = run(xcp, ["-r", "a", "sd", "dest"], w)
    left = sorted(os.listdir(os.path.join(w, "dest")))
    return [] if rc != 0 and left == ["sd"] else ["exit %d, dest now holds %s" % (rc, left)]

def f24_backup_number_beyond_u64(xcp, d):
    """C09: an existing f.~<20 digits>~ is a backup: auto mode must not overwrite f without preserving it"""
    bad = []
    for mode in ("auto", "numbered"):
        w = os.path.join(d, mode); os.makedirs(w)
        open(os.path.join(w, "src"), "w").write("new\n"); open(os.path.join(w, "f"), "w").write("old\n")
        open(os.path.join(w, "f.~99999999999999999999~"), "w").write("older\n")
        rc, err = run(xcp, ["--backup=" + mode, "src", "f"], w)
        kept = any(open(os.path.join(w, n)).read() == "old\n" for n in os.listdir(w))
        low = os.path.exists(os.path.join(w, "f.~1~"))
        if not kept or low:
            bad.append("%s: exit %d, old content preserved somewhere: %s, a number below the existing one handed out: %s" % (mode, rc, kept, low))
    return bad

def f25_parblock_tmpfs_sparse(xcp, d):
    """C11 (known finding): parblock on a source without FIEMAP (tmpfs) materialises the holes"""
    shm = tempfile.mkdtemp(prefix="xcp-replay-", dir="/dev/shm")
    try:
        src = os.path.join(shm, "s")
        with open(src, "wb") as f:
            f.seek(32 << 20); f.write(b"x" * 4096)
        rc, err = run(xcp, ["--driver", "parblock", src, os.path.join(d, "dst")], d)
        sb, db = os.stat(src).st_blocks, os.stat(os.path.join(d, "dst")).st_blocks
        return ["exit %d, source %d sectors allocated, destination %d" % (rc, sb, db)] if db > 4 * max(sb, 64) else []
    finally:
        shutil.rmtree(shm, ignore_errors=True)

def f26_xattr_first_failure(xcp, d):
    """C10: one extended attribute the destination refuses (first fsetxattr fails) must not cost the attributes listed after it"""
    src = os.path.join(d, "s")
    open(src, "w").write("data\n")
    try:
        for a, v in (("user.first", b"1"), ("user.second", b"2"), ("user.third", b"3")):
            os.setxattr(src, a, v)
    except OSError:
        return []          # no user xattrs here: nothing to show
    dst = os.path.join(d, "dst")
    p = subprocess.run(["strace", "-f", "-qq", "-o", "/dev/null", "-e", "trace=fsetxattr", "-e", "inject=fsetxattr:error=EPERM:when=1",
                        xcp, "--workers", "1", "s", "dst"], cwd=d, env=dict(os.environ, RUST_BACKTRACE="0"), capture_output=True, text=True, timeout=60)
    try:
        have = sorted(os.listxattr(dst))
    except OSError:
        have = []
    return ["exit %d, only %s of three user attributes arrived after one refused fsetxattr" % (p.returncode, have)] if len(have) < 2 else []

def f27_stat_error_absent(xcp, d):
    """C03/C04/C09: one failing statx of the destination must not be taken for 'nothing there'
    (`xcp f .` zeroing f; --backup=numbered skipping the backup)"""
    bad = []
    w = os.path.join(d, "self"); os.makedirs(w)
    open(os.path.join(w, "f"), "w").write("precious\n")
    for k in range(1, 30):       # fail the k-th statx of ./f in turn: whichever one is the guard's
        open(os.path.join(w, "f"), "w").write("precious\n")
        subprocess.run(["strace", "-f", "-qq", "-o", "/dev/null", "-e", "trace=statx", "-e", "inject=statx:error=EIO:when=%d" % k,
                        xcp, "--workers", "1", "f", "."], cwd=w, env=dict(os.environ, RUST_BACKTRACE="0"), capture_output=True, text=True, timeout=60)
        if open(os.path.join(w, "f")).read() != "precious\n":
            bad.append("xcp f . with the %d-th statx of ./f failing: source now %r" % (k, open(os.path.join(w, "f")).read()[:12]))
            break
    w = os.path.join(d, "bak"); os.makedirs(w)
    for k in range(1, 30):
        for n in os.listdir(w):
            os.remove(os.path.join(w, n))
        open(os.path.join(w, "src"), "w").write("new\n"); open(os.path.join(w, "f"), "w").write("old\n")
        p = subprocess.run(["strace", "-f", "-qq", "-o", "/dev/null", "-e", "trace=statx", "-e", "inject=statx:error=EIO:when=%d" % k,
                            xcp, "--workers", "1", "--backup=numbered", "src", "f"], cwd=w, env=dict(os.environ, RUST_BACKTRACE="0"), capture_output=True, text=True, timeout=60)
        kept = any(open(os.path.join(w, n)).read() == "old\n" for n in os.listdir(w))
        if p.returncode == 0 and not kept:
            bad.append("--backup=numbered with the %d-th statx of f failing: exit 0 and the old version is gone" % k)
            break
    return bad

def f28_created_through_dangling(xcp, d):
    """C02: a regular file must not be created through a dangling symlink at its destination"""
    bad = []
    for drv in ("parfile", "parblock"):
        w = os.path.join(d, drv); os.makedirs(w)
        open(os.path.join(w, "f"), "w").write("new\n"); os.symlink(os.path.join(w, "outside"), os.path.join(w, "dang"))
        rc, err = run(xcp, ["--driver", drv, "f", "dang"], w)
        if os.path.exists(os.path.join(w, "outside")):
            bad.append("%s: exit %d, the link's target was created" % (drv, rc))
    return bad

def f29_dir_through_symlink(xcp, d):
    """C02: `xcp -r src dest` with dest/src/sub a symlink to a directory must not write src/sub's contents through it"""
    bad = []
    for drv in ("parfile", "parblock"):
        w = os.path.join(d, drv); os.makedirs(os.path.join(w, "src", "sub")); os.makedirs(os.path.join(w, "dest", "src")); os.makedirs(os.path.join(w, "other"))
        open(os.path.join(w, "src", "sub", "x"), "w").write("x\n"); os.symlink("../../other", os.path.join(w, "dest", "src", "sub"))
        rc, err = run(xcp, ["-r", "--driver", drv, "src", "dest"], w)
        if os.listdir(os.path.join(w, "other")):
            bad.append("%s: exit %d, %s written outside the destination" % (drv, rc, os.listdir(os.path.join(w, "other"))))
    return bad

ALL = {"new:create-before-identity-check": f1_self_copy, "parfile:symlink-result-discarded": f2_symlink_result,
       "copy_node:dev-not-rdev": f3_device_number, "parblock:short-copy-not-retried": f5_short_copy,
       "walker:deref-does-not-follow-dir-links": f8_deref_dir_link, "finalise:chown-after-chmod": f9_setid_ownership,
       "backup:prefix-match": f4b_prefix, "backup:non-utf8-unrecognised": f4a_non_utf8,
       "worker-special:alias-removed": f10_special_alias,
       "walker:gitignore-fifo-opened": f11_gitignore_fifo,
       "walker:dotdot-source-outside-dest": f12_dotdot_source,
       "walker:root-symlink-followed": f13_root_symlink,
       "walker:gitignore-root-filtered": f14_gitignore_root, "walker:gitignore-isdir-follows-links": f15_gitignore_dirlink,
       "walker:gitignore-error-dropped": f16_gitignore_unreadable,
       "walker:noclobber-dangling-link": f17_noclobber_dangling, "worker-special:dangling-link-not-replaced": f18_special_over_dangling,
       "main:block-size-zero": f19_block_size_zero,
       "backup:readdir-error-swallowed": f20_backup_readdir_error,
       "uspace-range:eof-is-an-error": f21_parblock_fallback_eof,
       "main:same-file-by-spelling-only": f22_same_file_by_spelling,
       "main:dir-onto-file-multi-source": f23_dir_onto_file_multi,
       "backup:number-beyond-u64": f24_backup_number_beyond_u64,
       "parblock:no-extent-map-dense-copy": f25_parblock_tmpfs_sparse,
       "xattr:first-failure-stops-the-rest": f26_xattr_first_failure,
       "stat-error-taken-for-absent": f27_stat_error_absent,
       "new:created-through-dangling-link": f28_created_through_dangling, "walker:dir-through-existing-symlink": f29_dir_through_symlink}

def main():
    repo = sys.argv[1]
    sel = sys.argv[2:] or [k for k in ALL if k != "parblock:short-copy-not-retried"]
    xcp = build(repo)
    rc = 0
    for k in sel:
        d = tempfile.mkdtemp(prefix="xcp-replay-", dir=os.environ.get("XCP_REPLAY_TMP", "/var/tmp"))
        try:
            bad = ALL[k](xcp, d)
        finally:
            shutil.rmtree(d, ignore_errors=True)
        print("%-45s %s" % (k, "REPRODUCES: " + "; ".join(bad) if bad else "does not reproduce"))
        rc |= 1 if bad else 0
    return rc

sys.exit(main())
