#!/bin/bash
# eval_group.sh <patch|none> <prop> <group> : run ONE lemma group of a property against a scratch worktree of /repo (+ patch); own scratch/evidence dirs
P=$1; PROP=$2; ONLY=$3
WT=/var/tmp/ev1wt-$$
git -C /repo worktree add -q --detach $WT HEAD || exit 2
[ "$P" != none ] && { git -C $WT apply $P || { echo "patch does not apply"; git -C /repo worktree remove --force $WT; exit 2; }; }
cd /verif; XCP_VERIF_SCRATCH=/var/tmp/xcp-verif-ev1-$$/scratch XCP_EVIDENCE_DIR=/var/tmp/xcp-verif-ev1-$$/evidence XCP_REPO=$WT ./check $PROP --only $ONLY 2>&1 | grep -v "^KNOWN\|^NOTE" | tail -n ${LINES_OUT:-8} | cut -c1-400
git -C /repo worktree remove --force $WT; rm -rf /var/tmp/xcp-verif-ev1-$$
