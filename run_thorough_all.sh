#!/bin/bash
# every property's thorough check, one after the other (used with `vp run`); prints one summary line per property
cd "$(dirname "$0")"
rc=0
for p in C01 C02 C03 C04 C06 C07 C08 C09 C10 C11 C12 C13 C14 C15 C16 C17 C18 C19 C20 C05; do
  ./check $p --tier thorough 2>&1 | grep -v "^WARNING" | grep -v " ok " | cut -c1-300
  [ ${PIPESTATUS[0]} -ne 0 ] && rc=1
done
exit $rc
