#!/bin/bash
# every property's thorough check, one after the other (used with `vp run`); prints one summary line per property
cd "$(dirname "$0")"
rc=0
for p in C09 C11 C10 C15 C18 C20 C19 C16 C03 C13 C14 C01 C06 C05 C04 C07 C12 C17 C08 C02; do
  ./check $p --tier thorough 2>&1 | grep -v "^WARNING" | grep -v " ok " | cut -c1-300
  [ ${PIPESTATUS[0]} -ne 0 ] && rc=1
done
exit $rc
