import os, shutil, subprocess, sys
sys.path.insert(0, os.path.dirname(os.path.abspath(__file__)))
import xv, registry

def main():
    os.makedirs(xv.SEED_DIR, exist_ok=True)
    crates = sorted({h.crate for p in registry.PROPS.values() for h in p.get("kani", [])})
    for crate in crates:
        seed = os.path.join(xv.SEED_DIR, "kani-" + crate)
        shutil.rmtree(seed, ignore_errors=True)
        with xv.Scratch("setup." + crate) as scr:
            scr.inject_kani()
            scr.target = seed
            # compile only (codegen of every harness of the crate), no verification
            cmd = ["cargo", "kani", "--target-dir", seed, "-Z", "stubbing", "-Z", "unstable-options",
                   "--only-codegen"]
            r = subprocess.run(cmd, cwd=os.path.join(scr.src, xv.CRATE_DIR[crate]), env=xv.ENV,
                               stdout=subprocess.PIPE, stderr=subprocess.STDOUT, text=True)
            ok = r.returncode == 0
            print("seed %s: %s" % (crate, "ok" if ok else "FAILED (checks will build from scratch)"))
            if not ok:
                print(r.stdout[-3000:])
                shutil.rmtree(seed, ignore_errors=True)
    return 0

sys.exit(main())
