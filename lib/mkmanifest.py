"""Regenerate /verif/MANIFEST.json from the registry (run after editing registry.py)."""
import json, os, sys
sys.path.insert(0, os.path.dirname(os.path.abspath(__file__)))
import registry

ALL = ["C%02d" % i for i in range(1, 21)]
checks = []
for pid in ALL:
    p = registry.PROPS.get(pid)
    if not p or not p.get("claim", True):
        continue
    checks.append({
        "property_id": pid,
        "quick_cmd": "./check %s --tier quick" % pid,
        "thorough_cmd": "./check %s --tier thorough" % pid,
        "evidence_file": "/verif/evidence/%s.json" % pid,
        "replay_cmd_template": "./check %s --replay {path}" % pid,
        "engine": p.get("engine", "kani-real"),
        "level_claimed": {"category": "model_checking", "text": p["level_text"], "design_ref": p.get("design_ref", "DESIGN.md §4 " + pid)},
        "level_note": p["level_note"],
        "technique": p.get("technique", "bounded symbolic execution of the real code (Kani/CBMC, CaDiCaL) with nondeterministic syscall stubs"),
    })
na = [{"property_id": pid, "reason": registry.NOT_APPLICABLE.get(pid, "no check built yet in this round; see DESIGN.md")}
      for pid in ALL if pid not in [c["property_id"] for c in checks]]
man = {
    "version": 1,
    "setup_cmd": "./setup.sh",
    "hooks": {
        "guard": "cfg(kani) child modules appended to a scratch copy at check time; nothing is committed to /repo",
        "enable": "./check copies /repo's working tree to /var/tmp/xcp-verif/<id>.<tier>/src, appends `#[cfg(kani)] #[path=...] mod xcp_verif;` lines and a [patch.crates-io] table for the model crates, then runs cargo kani there; the MIR engine runs `cargo +nightly rustc -- -Zunpretty=mir` on the same copy",
        "baseline_off_cmd": "cd /repo && cargo nextest run --workspace --no-fail-fast --test-threads 8 --offline || cargo test --workspace --no-fail-fast --offline",
        "source_commits": [],
        "add_only": True,
    },
    "engines": [
        {"name": "kani-real", "path": "/verif/lib/xv.py", "serves_properties": sorted(p for p in registry.PROPS if registry.PROPS[p].get("kani")),
         "kind_free_text": "Kani 0.68 / CBMC 6.11 bounded model checking of the real function bodies over nondeterministic syscall stubs"},
        {"name": "mir-smt", "path": "/verif/mirsmt", "serves_properties": sorted(p for p in registry.PROPS if registry.PROPS[p].get("e2")),
         "kind_free_text": "symbolic execution of rustc's MIR for the real functions (path enumeration, SMT terms for data), every query decided by z3 and cross-checked with cvc5"},
    ],
    "checks": checks,
    "not_applicable": na,
    "notes": "Exit codes: 0 held (possibly with KNOWN-FINDING lines), 1 reproduced violation (VIOLATION line), 2 inconclusive (timeout/OOM/ICE/unsatisfied cover/non-reproducing counterexample).",
}
json.dump(man, open(os.path.join(os.path.dirname(os.path.dirname(os.path.abspath(__file__))), "MANIFEST.json"), "w"), indent=1)
print("claimed:", [c["property_id"] for c in checks])
