"""check <Cnn> [--tier quick|thorough] [--only <harness>] [--replay <path>] [--jobs N]"""
import argparse
import json
import os
import sys
import time

import xv
import registry


def main(argv):
    ap = argparse.ArgumentParser()
    ap.add_argument("prop")
    ap.add_argument("--tier", default=os.environ.get("VERIF_TIER", "quick"), choices=["quick", "thorough"])
    ap.add_argument("--only", action="append", default=[])
    ap.add_argument("--replay")
    ap.add_argument("--jobs", type=int, default=int(os.environ.get("XCP_VERIF_JOBS", "8")))
    a = ap.parse_args(argv)
    seed = int(os.environ.get("VERIF_SEED", "0") or 0)
    prop = a.prop
    if prop not in registry.PROPS:
        print("unknown or unclaimed property %s" % prop)
        return 2
    if a.replay:
        import replay
        return replay.replay(prop, a.replay)
    t0 = time.time()
    spec = registry.PROPS[prop]
    # stale replay files of earlier runs of this property would only confuse
    import glob
    for f in glob.glob(os.path.join(xv.EVIDENCE_DIR, "replays", prop + "-*.json")):
        if not a.only:
            try:
                os.unlink(f)
            except OSError:
                pass
    harnesses = [h for h in spec.get("kani", []) if (a.tier == "thorough" or h.tier == "quick")]
    if a.only:
        harnesses = [h for h in harnesses if h.name in a.only]
    # VERIF_SEED only permutes launch order (nothing is sampled)
    if seed:
        import random
        random.Random(seed).shuffle(harnesses)
    results = []
    e2_results = []
    verdicts = []  # (kind, source, verdict, detail, extra)
    with xv.Scratch("%s.%s" % (prop, a.tier)) as scr:
        if harnesses:
            scr.inject_kani()
            crates = sorted(set(h.crate for h in harnesses))
            scr.seed_target("+".join(crates) if len(crates) > 1 else crates[0])
            results = xv.run_parallel(lambda h: xv.run_kani(scr, h), harnesses, a.jobs)
            for h, r in zip(harnesses, results):
                v, d = xv.classify(h, r)
                verdicts.append(("kani", h, v, d, r))
                xv.log("%-40s %-12s %6.1fs %s" % (h.name, v, r.get("wall_s", 0), d[:200]))
        for e2 in spec.get("e2", []):
            if a.tier == "quick" and e2.get("tier") == "thorough":
                continue
            if a.only and e2["name"] not in a.only:
                continue
            import e2run
            e2 = dict(e2, prop=prop)
            r = e2run.run(scr, e2, seed, a.tier)
            e2_results.append(r)
            verdicts.append(("e2", e2, r["verdict"], r.get("detail", ""), r))
            xv.log("%-40s %-12s %6.1fs %s" % (e2["name"], r["verdict"], r.get("wall_s", 0), r.get("detail", "")[:200]))
        rc, lines, nviol = conclude(prop, a.tier, seed, verdicts, scr)
    ev = build_evidence(prop, a.tier, seed, spec, verdicts, time.time() - t0, nviol)
    xv.write_evidence(prop, ev)
    for l in lines:
        print(l)
    print("%s %s: rc=%d wall=%.0fs harnesses=%d" % (prop, a.tier, rc, time.time() - t0, len(verdicts)))
    return rc


def conclude(prop, tier, seed, verdicts, scr):
    open_f, fixed_f = xv.load_known_findings()
    lines = []
    rc = 0
    nviol = 0
    import replay
    failing_keys = set()
    for kind, src, v, d, r in verdicts:
        if kind == "e2":
            for l in r.get("lemmas", []):
                if not l["ok"] and not l.get("witness"):
                    failing_keys.add(l.get("key") or l["name"])
    printed = set()
    for kind, src, v, d, r in verdicts:
        name = src.name if kind == "kani" else src["name"]
        if kind == "e2":
            # lemma-granular: every failing lemma is either a listed finding or a violation
            for l in r.get("lemmas", []):
                if l.get("witness") or l["ok"]:
                    continue
                key = l.get("key") or l["name"]
                if (prop, key) in open_f:
                    if key not in printed:
                        printed.add(key)
                        lines.append("KNOWN-FINDING: property=%s %s [%s]" % (prop, open_f[(prop, key)], key))
                    continue
                if v == "inconclusive":
                    continue
                path, confirmed = replay.record(prop, name, kind, dict(r, lemma=l["name"], counterexample=l.get("counterexample"),
                                                                      bad_key=key, replayed=l.get("replayed", True)), l["name"], scr)
                if confirmed:
                    lines.append("VIOLATION property=%s replay=%s" % (prop, path))
                    nviol += 1
                    rc = 1
                else:
                    lines.append("INCONCLUSIVE property=%s lemma=%r counterexample did not replay (%s)" % (prop, l["name"], path))
                    rc = max(rc, 2) if rc != 1 else 1
            if v == "inconclusive":
                lines.append("INCONCLUSIVE property=%s harness=%s %s" % (prop, name, d))
                rc = max(rc, 2) if rc != 1 else 1
            # listed findings that no longer fail are reported, not alarmed about
            for l in r.get("lemmas", []):
                if l["ok"] and l.get("key") and (prop, l["key"]) in open_f and l["key"] not in failing_keys and ("stale", l["key"]) not in printed:
                    printed.add(("stale", l["key"]))
                    lines.append("NOTE property=%s finding %s no longer reproduces (stale entry in known_findings.txt)" % (prop, l["key"]))
            continue
        if v == "ok":
            continue
        if v == "inconclusive":
            lines.append("INCONCLUSIVE property=%s harness=%s %s" % (prop, name, d))
            rc = max(rc, 2) if rc != 1 else 1
        elif v == "finding":
            key = src.finding
            if key and (prop, key) in open_f:
                lines.append("KNOWN-FINDING: property=%s %s [%s]" % (prop, open_f[(prop, key)], key))
            else:
                path, confirmed = replay.record(prop, name, kind, r, d, scr)
                if confirmed:
                    lines.append("VIOLATION property=%s replay=%s" % (prop, path))
                    nviol += 1
                    rc = 1
                else:
                    lines.append("INCONCLUSIVE property=%s harness=%s counterexample did not replay (%s)" % (prop, name, path))
                    rc = max(rc, 2) if rc != 1 else 1
        elif v == "stale-finding":
            key = src.finding
            if key and (prop, key) in open_f:
                lines.append("NOTE property=%s finding %s no longer reproduces (stale entry in known_findings.txt)" % (prop, key))
        elif v == "violation":
            path, confirmed = replay.record(prop, name, kind, r, d, scr)
            if confirmed:
                lines.append("VIOLATION property=%s replay=%s" % (prop, path))
                nviol += 1
                rc = 1
            else:
                lines.append("INCONCLUSIVE property=%s harness=%s counterexample did not replay (%s)" % (prop, name, path))
                rc = max(rc, 2) if rc != 1 else 1
    if rc == 1:
        pass
    return rc, lines, nviol


def build_evidence(prop, tier, seed, spec, verdicts, wall, nviol):
    samples = []
    evaluations = 0
    nontrivial = 0
    states = 0
    transitions = 0
    validated = 0
    proved = set()
    stubs = set()
    solver_s = 0.0
    functions = set(spec.get("functions", []))
    queries = 0
    for kind, src, v, d, r in verdicts:
        if kind == "kani":
            evaluations += r.get("vccs", 0) or r.get("checks", 0)
            queries += r.get("checks", 0)
            sat_cov = [c for c, s in r.get("covers", {}).items() if s == "SATISFIED"]
            if v in ("ok", "finding") and (sat_cov or src.witness):
                nontrivial += 1
            states += 1
            transitions += r.get("vccs", 0) or r.get("checks", 0)
            stubs.update(r.get("stubs", []))
            solver_s += r.get("solver_s", 0)
            samples.append({"engine": "kani", "harness": src.name, "crate": src.crate, "verdict": v,
                            "detail": d[:300], "bounds": src.bounds, "note": src.note,
                            "checks": r.get("checks"), "vccs": r.get("vccs"), "sat_vars": r.get("sat_vars"),
                            "sat_clauses": r.get("sat_clauses"), "solver_s": r.get("solver_s"),
                            "symex_s": r.get("symex_s"), "wall_s": r.get("wall_s"),
                            "covers": r.get("covers"), "failed": [c.get("desc") for c in r.get("failed", [])][:8],
                            "stubs_applied": len(r.get("stubs", []))})
        else:
            evaluations += r.get("queries", 0)
            queries += r.get("queries", 0)
            proved.update("%s: %s" % (src["name"], n) for n in r.get("proved", []))
            states += r.get("paths", 0)
            transitions += r.get("steps", 0)
            validated += r.get("validated", 0)
            solver_s += r.get("solver_s", 0)
            functions.update(r.get("functions", []))
            lem = [{"name": l["name"], "ok": l["ok"], "cvc5": l.get("cvc5"), "key": l.get("key"), "instances": l.get("count", 1)}
                   for l in r.get("lemmas", [])][:60]
            samples.append(dict(engine="mir-smt", name=src["name"], verdict=v, detail=d[:300], lemmas=lem,
                                **{k: r[k] for k in ("queries", "paths", "steps", "bounds", "solver_s", "wall_s", "solvers", "cvc5_decided", "validated") if k in r}))
    ev = {
        "property_id": prop, "tier": tier, "seed": seed, "level": "model_checking",
        "coverage": {
            "evaluations": int(evaluations),
            "distinct_nontrivial": int(nontrivial + len(proved)),
            "rule": "evaluations = SMT queries / verification conditions discharged by the solver in this run; "
                    "distinct_nontrivial = distinct lemmas (by name, per lemma group) that were decided 'holds' on at least one "
                    "feasible symbolic path in this run, plus Kani harnesses that concluded with a satisfied cover / violated vacuity twin; "
                    "states = symbolic paths explored to completion (MIR engine) + Kani harnesses; transitions = MIR basic blocks "
                    "symbolically executed + Kani verification conditions",
            "states": int(max(states, 0)),
            "transitions": int(max(transitions, 0)),
            "traces_validated_against_impl": int(validated),
            "samples": samples,
            "exhaustive": False,
            "explanation": "bounded symbolic execution of the real code; every verdict is the solver's over all "
                           "values inside the stated bounds (see samples[].bounds); nothing is sampled",
            "functions_encoded": sorted(functions),
            "stubs": sorted(stubs),
            "queries_discharged": int(queries),
            "solver_time_s": round(solver_s, 2),
        },
        "assumptions": spec.get("assumptions", []),
        "wall_s": round(wall, 1),
        "violations": nviol,
    }
    return ev
