"""Shared machinery of the xcp verification driver (DESIGN.md §2).

Engine E1: Kani/CBMC over the real function bodies, on a scratch copy of /repo's
current working tree with harness modules appended (cfg(kani)) and model crates
patched in.  Engine E2 lives in /verif/mirsmt.
"""
import fcntl
import json
import os
import re
import resource
import shutil
import signal
import subprocess
import sys
import threading
import time

VERIF = os.path.dirname(os.path.dirname(os.path.abspath(__file__)))
REPO = os.environ.get("XCP_REPO", "/repo")
SCRATCH_ROOT = os.environ.get("XCP_VERIF_SCRATCH", "/var/tmp/xcp-verif")
SEED_DIR = os.path.join(VERIF, ".build")
ENV = dict(os.environ, CARGO_NET_OFFLINE="true", RUST_BACKTRACE="0",
           CARGO_TERM_COLOR="never")

# source file (relative to repo root) -> harness file (relative to /verif/harness)
INJECT = {
    "libfs/src/common.rs": "libfs/common.rs",
    "libfs/src/linux.rs": "libfs/linux.rs",
    "libfs/src/fallback.rs": "libfs/fallback.rs",
    "libfs/src/lib.rs": "libfs/lib.rs",
    "libxcp/src/operations.rs": "libxcp/operations.rs",
    "libxcp/src/backup.rs": "libxcp/backup.rs",
    "libxcp/src/feedback.rs": "libxcp/feedback.rs",
    "libxcp/src/paths.rs": "libxcp/paths.rs",
    "libxcp/src/config.rs": "libxcp/config.rs",
    "libxcp/src/drivers/parfile.rs": "libxcp/parfile.rs",
    "libxcp/src/drivers/parblock.rs": "libxcp/parblock.rs",
    "libxcp/src/drivers/mod.rs": "libxcp/drivers_mod.rs",
    "src/main.rs": "xcp/main.rs",
    "src/options.rs": "xcp/options.rs",
}

MODEL_CRATES = ["log", "regex", "walkdir", "crossbeam-channel", "blocking-threadpool",
                "ignore", "simplelog", "num_cpus"]


def log(msg):
    sys.stderr.write("[xv] %s\n" % msg)
    sys.stderr.flush()


class Scratch:
    """A private copy of /repo's working tree with the verification plumbing appended."""

    def __init__(self, tag):
        self.root = os.path.join(SCRATCH_ROOT, tag)
        self.src = os.path.join(self.root, "src")
        self.target = os.path.join(self.root, "target")
        self.logs = os.path.join(self.root, "logs")
        self._lock = None

    def __enter__(self):
        os.makedirs(SCRATCH_ROOT, exist_ok=True)
        self._lock = open(self.root + ".lock", "w")
        fcntl.flock(self._lock, fcntl.LOCK_EX)
        shutil.rmtree(self.root, ignore_errors=True)
        os.makedirs(self.logs)
        subprocess.check_call(["rsync", "-a", "--exclude", "/target", "--exclude", "/.git",
                               REPO + "/", self.src + "/"])
        return self

    def __exit__(self, *a):
        if os.environ.get("XCP_VERIF_KEEP") != "1":
            shutil.rmtree(self.root, ignore_errors=True)
        fcntl.flock(self._lock, fcntl.LOCK_UN)
        self._lock.close()
        try:
            os.unlink(self.root + ".lock")
        except OSError:
            pass

    def inject_kani(self):
        """Append cfg(kani) child modules and the model-crate patch table."""
        for rel, h in INJECT.items():
            hp = os.path.join(VERIF, "harness", h)
            sp = os.path.join(self.src, rel)
            if os.path.exists(hp) and os.path.exists(sp):
                with open(sp, "a") as f:
                    f.write('\n#[cfg(kani)] #[path = "%s"] mod xcp_verif;\n' % hp)
        avail = [m for m in MODEL_CRATES if os.path.isdir(os.path.join(VERIF, "models", m))]
        with open(os.path.join(self.src, "Cargo.toml"), "a") as f:
            f.write("\n[patch.crates-io]\n")
            for m in avail:
                f.write('%s = { path = "%s" }\n' % (m, os.path.join(VERIF, "models", m)))

    def seed_target(self, crate):
        seed = os.path.join(SEED_DIR, "kani-" + crate)
        if os.path.isdir(seed) and not os.path.exists(self.target):
            subprocess.call(["cp", "-a", seed, self.target])


# --------------------------------------------------------------------------- Kani

class Harness:
    def __init__(self, crate, name, tier="quick", flags=(), covers=(), expect="pass",
                 finding=None, timeout=900, mem_gb=12, note="", bounds="", witness=False):
        self.crate = crate          # libfs | libxcp | xcp
        self.name = name
        self.tier = tier            # quick => runs in both tiers; thorough => thorough only
        self.flags = list(flags)
        self.covers = list(covers)  # cover! descriptions that must be SATISFIED
        self.expect = expect        # pass | fail (witness / finding harness)
        self.finding = finding      # known-finding key if expect == fail because of a recorded defect
        self.timeout = timeout
        self.mem_gb = mem_gb
        self.note = note
        self.bounds = bounds
        self.witness = witness      # vacuity twin: must FAIL with its "vacuity witness" assertion


CRATE_DIR = {"libfs": "libfs", "libxcp": "libxcp", "xcp": "."}
_compile_lock = threading.Lock()


def _limits(mem_gb):
    def f():
        os.setsid()
        b = int(mem_gb * (1 << 30))
        resource.setrlimit(resource.RLIMIT_AS, (b, b))
    return f


def run_kani(scr, h, extra=()):
    """Run one harness; returns the parsed result dict.  Compile/link phases of
    concurrent harnesses are serialised (shared target dir); CBMC runs in parallel."""
    logp = os.path.join(scr.logs, h.name + ".log")
    cmd = ["cargo", "kani", "--target-dir", scr.target, "--harness", h.name,
           "-Z", "stubbing", "-Z", "unstable-options", "--no-assertion-reach-checks",
           "--verbose"] + h.flags + list(extra)
    cwd = os.path.join(scr.src, CRATE_DIR[h.crate])
    t0 = time.time()
    _compile_lock.acquire()
    held = True
    timed_out = False
    with open(logp, "w") as lf:
        p = subprocess.Popen(cmd, cwd=cwd, env=ENV, stdout=subprocess.PIPE,
                             stderr=subprocess.STDOUT, preexec_fn=_limits(h.mem_gb), text=True,
                             errors="replace")
        timer = threading.Timer(h.timeout, lambda: _killpg(p))
        timer.start()
        try:
            for line in p.stdout:
                if line.startswith(("Unwinding loop", "Not unwinding loop", "aborting path")):
                    continue
                lf.write(line)
                if held and ("Running: `cbmc" in line or "Checking harness" in line):
                    _compile_lock.release()
                    held = False
            p.wait()
        finally:
            if held:
                _compile_lock.release()
            if not timer.is_alive():
                timed_out = True
            timer.cancel()
    res = parse_kani_log(logp)
    res.update(harness=h.name, crate=h.crate, wall_s=round(time.time() - t0, 1),
               timed_out=timed_out, log=logp, rc=p.returncode)
    if timed_out:
        res["status"] = "timeout"
    return res


def _killpg(p):
    try:
        os.killpg(os.getpgid(p.pid), signal.SIGKILL)
    except OSError:
        pass


_RE_CHECK = re.compile(r"^Check (\d+): (\S+)")


def parse_kani_log(path):
    txt = open(path, errors="replace").read()
    res = {"status": "error", "failed": [], "covers": {}, "stubs": [], "checks": 0,
           "vccs": 0, "vccs_remaining": 0, "sat_vars": 0, "sat_clauses": 0,
           "solver_s": 0.0, "symex_s": 0.0, "unsupported": [], "undetermined": 0}
    res["stubs"] = [re.sub(r"\s+", "", s) for s in re.findall(r"- Stub: (.*)", txt)]
    m = re.search(r"Generated (\d+) VCC\(s\), (\d+) remaining", txt)
    if m:
        res["vccs"], res["vccs_remaining"] = int(m.group(1)), int(m.group(2))
    for m in re.finditer(r"^(\d+) variables, (\d+) clauses", txt, re.M):
        res["sat_vars"] = max(res["sat_vars"], int(m.group(1)))
        res["sat_clauses"] = max(res["sat_clauses"], int(m.group(2)))
    res["solver_s"] = round(sum(float(x) for x in re.findall(r"Runtime Solver: ([\d.e+-]+)s", txt)), 3)
    res["symex_s"] = round(sum(float(x) for x in re.findall(r"Runtime Symex: ([\d.e+-]+)s", txt)), 3)
    # individual checks
    cur = None
    for line in txt.splitlines():
        m = _RE_CHECK.match(line)
        if m:
            cur = {"id": m.group(2)}
            res["checks"] += 1
            continue
        if cur is None:
            continue
        s = line.strip()
        if s.startswith("- Status:"):
            cur["status"] = s.split(":", 1)[1].strip()
        elif s.startswith("- Description:"):
            cur["desc"] = s.split(":", 1)[1].strip().strip('"')
        elif s.startswith("- Location:"):
            cur["loc"] = s.split(":", 1)[1].strip()
            st = cur.get("status", "")
            if ".cover." in cur["id"] or st in ("SATISFIED", "UNSATISFIABLE", "UNREACHABLE") and "cover" in cur["id"]:
                res["covers"][cur.get("desc", cur["id"])] = st
            elif st == "FAILURE":
                res["failed"].append(cur)
            elif st == "UNDETERMINED":
                res["undetermined"] += 1
            cur = None
    if "VERIFICATION:- SUCCESSFUL" in txt:
        res["status"] = "pass"
    elif "VERIFICATION:- FAILED" in txt:
        res["status"] = "fail"
    if "CBMC appears to have run out of memory" in txt or "std::bad_alloc" in txt \
            or "Status: ERROR" in txt \
            or re.search(r"^Out of memory|CBMC failed with status", txt, re.M):
        res["status"] = "oom"
    if re.search(r"error: internal compiler error|kani-compiler.*panicked|thread 'rustc' panicked", txt):
        res["status"] = "ice"
    if re.search(r"^error(\[E\d+\])?:", txt, re.M) and res["status"] == "error":
        res["status"] = "compile_error"
    return res


def classify(h, r):
    """-> (verdict, detail).  verdict in ok | violation | finding | inconclusive."""
    st = r["status"]
    if st in ("timeout", "oom", "ice", "error", "compile_error"):
        return "inconclusive", st
    unwinding = [c for c in r["failed"] if "unwinding assertion" in c.get("desc", "")]
    unsupported = [c for c in r["failed"] if "unsupported_construct" in c["id"]
                   or "is not currently supported by Kani" in c.get("desc", "")]
    if unwinding:
        return "inconclusive", "unwinding assertion failed: bound too small (%s)" % unwinding[0].get("loc")
    if unsupported:
        return "inconclusive", "unsupported construct reached: %s" % unsupported[0].get("desc")
    if h.witness:
        wit = [c for c in r["failed"] if "vacuity witness" in c.get("desc", "")]
        if st == "fail" and wit and len(r["failed"]) == len(wit):
            return "ok", "witness reached"
        if st == "pass":
            return "inconclusive", "vacuity witness NOT reachable: harness is vacuous"
        return "violation", "; ".join(c.get("desc", "?") for c in r["failed"] if c not in wit)
    if h.expect == "fail":
        if st == "fail":
            return "finding", "; ".join(sorted(set(c.get("desc", "?") for c in r["failed"])))
        return "stale-finding", "finding harness passed"
    if st == "fail":
        return "violation", "; ".join(sorted(set(c.get("desc", "?") for c in r["failed"])))
    for c in h.covers:
        if r["covers"].get(c) != "SATISFIED":
            return "inconclusive", "cover not satisfied: %r -> %s" % (c, r["covers"].get(c))
    if r["undetermined"]:
        return "inconclusive", "%d UNDETERMINED checks" % r["undetermined"]
    return "ok", ""


def run_parallel(fn, items, jobs):
    out = [None] * len(items)
    idx = iter(range(len(items)))
    lock = threading.Lock()

    def worker():
        while True:
            with lock:
                i = next(idx, None)
            if i is None:
                return
            try:
                out[i] = fn(items[i])
            except Exception as e:  # noqa
                out[i] = {"status": "error", "exception": repr(e), "failed": [], "covers": {},
                          "stubs": [], "harness": getattr(items[i], "name", "?")}
    ts = [threading.Thread(target=worker) for _ in range(max(1, min(jobs, len(items))))]
    for t in ts:
        t.start()
    for t in ts:
        t.join()
    return out


# --------------------------------------------------------------------------- findings

def load_known_findings():
    """known_findings.txt: 'finding: property=Cnn key=<key> <text>' or
    'fixed: property=Cnn <commit> key=<key> <text>' (fixed entries suppress nothing)."""
    open_, fixed = {}, {}
    p = os.path.join(VERIF, "known_findings.txt")
    if not os.path.exists(p):
        return open_, fixed
    for line in open(p):
        line = line.strip()
        if not line or line.startswith("#"):
            continue
        m = re.match(r"(finding|fixed): property=(C\d+) (?:(\S+) )?key=(\S+) (.*)", line)
        if not m:
            continue
        kind, prop, commit, key, text = m.groups()
        (open_ if kind == "finding" else fixed)[(prop, key)] = text
    return open_, fixed


# evidence of runs against something other than /repo (seed / benign evaluation in a scratch worktree) must not overwrite
# the evidence of the tree under verification
EVIDENCE_DIR = os.environ.get("XCP_EVIDENCE_DIR") or os.path.join(VERIF, "evidence")


def write_evidence(prop, ev):
    os.makedirs(EVIDENCE_DIR, exist_ok=True)
    p = os.path.join(EVIDENCE_DIR, prop + ".json")
    tmp = p + ".tmp"
    with open(tmp, "w") as f:
        json.dump(ev, f, indent=1, sort_keys=True)
        f.write("\n")
    os.replace(tmp, p)
    return p
