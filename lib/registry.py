"""Which harnesses / lemmas decide which property (DESIGN.md §4)."""
from xv import Harness as H

PROPS = {}
NOT_APPLICABLE = {}

PROPS["C05"] = {
    "level_text": "Bounded model checking (Kani/CBMC) of libfs's real copy loops over a nondeterministic syscall model: "
                  "every legal short count and errno at every call is a solver variable; exhaustive within the stated file-size and fault bounds",
    "level_note": "trusted: the syscall model in harness/libfs/lib.rs (POSIX short-count contract), Kani's translation of MIR, CBMC; "
                  "files <= 4 bytes quick / 6 thorough; larger files outside the claim",
    "functions": ["libfs::common::copy_range_uspace", "libfs::common::copy_bytes_uspace",
                  "libfs::common::read_bytes", "libfs::common::write_bytes"],
    "assumptions": [
        "syscall model: pread/read return any count in 1..=min(len, available) or 0 at EOF; pwrite any count in 0..=len; "
        "write() >= 1 for non-empty buffers; at most N injected hard errors; EINTR at most twice (harness/libfs/lib.rs)",
        "source not modified while it is copied",
    ],
    "kani": [
        H("libfs", "c05_range_uspace_q", bounds="file <= 4 bytes, 1 injected fault, unwind 6",
          covers=["ok after a short read", "full-size request", "injected fault reported"]),
        H("libfs", "c05_range_uspace_zero", bounds="n = 0"),
        H("libfs", "c05_bytes_uspace_short_q", bounds="file <= 3 bytes, short reads/writes, unwind 6",
          covers=["ok after a short read or write"]),
        H("libfs", "c05_bytes_uspace_eintr_q", bounds="file <= 2 bytes, 1 EINTR, unwind 6",
          covers=["ok after EINTR"]),
        H("libfs", "c05_bytes_uspace_fault_q", bounds="file <= 2 bytes, 1 injected fault, unwind 6"),
        H("libfs", "c05_uspace_witness", witness=True),
        H("libfs", "c05_range_uspace_t", tier="thorough", bounds="file <= 6 bytes, 2 faults, unwind 8",
          covers=["ok after a short read"], timeout=3600, mem_gb=24),
        H("libfs", "c05_bytes_uspace_t", tier="thorough", bounds="file <= 6 bytes, 2 faults, 2 EINTR, unwind 8",
          covers=["ok after a short read or write"], timeout=3600, mem_gb=24),
    ],
}


def E(name, module, func, tier="quick", **kw):
    d = {"name": name, "module": module, "func": func, "tier": tier}
    d.update(kw)
    return d


E2_TECH = "forking symbolic execution of rustc MIR of the real functions, path conditions and lemmas decided by z3 (cvc5 cross-check)"
KANI_TECH = "bounded model checking of the real code with Kani/CBMC (CaDiCaL) over nondeterministic syscall stubs"
BOTH_TECH = "symbolic execution of the real code: MIR->SMT (z3, cvc5 cross-check) for libxcp logic, Kani/CBMC for libfs I/O loops"

L2_ASSUME = [
    "libfs contracts used as call summaries at the libxcp level (harness-checked at L1 where a Kani harness exists): "
    "copy_file_bytes/copy_file_offset return Ok(k) with 1 <= k <= request or Err; next_sparse_segments returns pos <= data <= hole <= len with progress",
    "source files are not modified while they are copied",
    "logging is disabled (log level checks evaluate to false); formatting calls are opaque",
]

PROPS["C01"] = {
    "engine": "mir-smt", "technique": BOTH_TECH,
    "level_text": "MIR-level symbolic execution of both copy paths with SMT-decided lemmas: the parfile copy loop and the sparse segment walk by "
                  "one inductive step from an arbitrary loop state (any length, block size, short counts), the parblock partition for an arbitrary "
                  "block index over full 64-bit ranges, the block job against the copy_file_offset contract, and the range selection of queue_file_blocks",
    "level_note": "trusted: the MIR parser/interpreter in /verif/mirsmt, the call summaries listed under assumptions, z3 (cvc5 cross-check on lemma queries); "
                  "extent lists bounded to 2 (quick) / 3 (thorough) extents; Driver::copy thread plumbing not executed",
    "assumptions": L2_ASSUME,
    "e2": [
        E("copy_bytes_step", "p_copy", "lemma_copy_bytes"),
        E("copy_sparse_step", "p_copy", "lemma_copy_sparse"),
        E("copy_file", "p_copy", "lemma_copy_file"),
        E("partition", "p_parblock", "lemma_partition"),
        E("block_job", "p_parblock", "lemma_block_job"),
        E("queue_file_blocks", "p_parblock", "lemma_queue_file_blocks"),
    ],
}
PROPS["C10"] = {
    "engine": "mir-smt", "technique": E2_TECH,
    "level_text": "all paths of finalise_copy / Drop for CopyHandle enumerated symbolically over every flag combination and every step outcome; "
                  "order, once-only and flag lemmas decided by z3",
    "level_note": "trusted: MIR interpreter + summaries of libfs::copy_permissions/copy_timestamps/copy_owner/sync (their bodies are L1 obligations); "
                  "the kernel rule that fchown clears set-id bits is encoded as the ordering lemma",
    "assumptions": L2_ASSUME,
    "e2": [E("finalise", "p_finalise", "lemma_finalise"), E("queue_file_blocks", "p_parblock", "lemma_queue_file_blocks"),
           E("block_job", "p_parblock", "lemma_block_job")],
}
PROPS["C18"] = {
    "engine": "mir-smt", "technique": E2_TECH,
    "level_text": "fsync is the last finalisation step on every path; finalisation is tied to the last reference of the handle "
                  "(Arc count model) in queue_file_blocks and the block job",
    "level_note": "trusted: MIR interpreter, Arc reference-count model; cross-thread ordering beyond Arc's contract is assumed",
    "assumptions": L2_ASSUME + ["Arc drops the inner value exactly when the last clone is dropped"],
    "e2": [E("finalise", "p_finalise", "lemma_finalise"), E("queue_file_blocks", "p_parblock", "lemma_queue_file_blocks")],
}
PROPS["C04"] = {
    "engine": "mir-smt", "technique": E2_TECH,
    "level_text": "every fallible environment call forks into Ok/Err; on each Err path the function must return Err or send an Error update",
    "level_note": "trusted: MIR interpreter; main's conversion of Err/Error-update into the exit status is read from the code, not executed",
    "assumptions": L2_ASSUME,
    "e2": [E("copy_bytes_step", "p_copy", "lemma_copy_bytes"), E("copy_sparse_step", "p_copy", "lemma_copy_sparse"),
           E("copy_file", "p_copy", "lemma_copy_file"), E("finalise", "p_finalise", "lemma_finalise"),
           E("drop", "p_finalise", "lemma_drop"), E("block_job", "p_parblock", "lemma_block_job"),
           E("queue_file_blocks", "p_parblock", "lemma_queue_file_blocks")],
}
PROPS["C15"] = {
    "engine": "mir-smt", "technique": E2_TECH,
    "level_text": "all reflink modes x clone outcomes {ok, unsupported, error} enumerated through try_reflink in copy_file and queue_file_blocks",
    "level_note": "trusted: MIR interpreter; libfs::reflink's errno classification is an L1 obligation",
    "assumptions": L2_ASSUME,
    "e2": [E("copy_file", "p_copy", "lemma_copy_file"), E("queue_file_blocks", "p_parblock", "lemma_queue_file_blocks")],
}
PROPS["C05"]["e2"] = [E("copy_bytes_step", "p_copy", "lemma_copy_bytes"), E("block_job", "p_parblock", "lemma_block_job")]
PROPS["C05"]["technique"] = BOTH_TECH
