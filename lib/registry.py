"""Which harnesses / lemmas decide which property (DESIGN.md §4)."""
from xv import Harness as H

PROPS = {}
NOT_APPLICABLE = {}

PROPS["C05"] = {
    "level_text": "Bounded model checking (Kani/CBMC) of libfs's real copy loops over a nondeterministic syscall model: "
                  "every legal short count and errno at every call is a solver variable; exhaustive within the stated file-size and fault bounds",
    "level_note": "trusted: the syscall model in harness/libfs/lib.rs (POSIX short-count contract), Kani's translation of MIR, CBMC; "
                  "files <= 4 bytes quick / 6 thorough; larger files outside the claim",
    "functions": ["libfs::common::copy_range_uspace", "libfs::common::copy_bytes_uspace",
                  "libfs::common::read_bytes", "libfs::common::write_bytes"],
    "assumptions": [
        "syscall model: pread/read return any count in 1..=min(len, available) or 0 at EOF; pwrite any count in 0..=len; "
        "write() >= 1 for non-empty buffers; at most N injected hard errors; EINTR at most twice (harness/libfs/lib.rs)",
        "source not modified while it is copied",
    ],
    "kani": [
        H("libfs", "c05_range_uspace_q", bounds="file <= 4 bytes, 1 injected fault, unwind 6",
          covers=["ok after a short read", "full-size request", "injected fault reported"]),
        H("libfs", "c05_range_uspace_zero", bounds="n = 0"),
        H("libfs", "c05_bytes_uspace_short_q", bounds="file <= 3 bytes, short reads/writes, unwind 6",
          covers=["ok after a short read or write"]),
        H("libfs", "c05_bytes_uspace_eintr_q", bounds="file <= 2 bytes, 1 EINTR, unwind 6",
          covers=["ok after EINTR"]),
        H("libfs", "c05_bytes_uspace_fault_q", bounds="file <= 2 bytes, 1 injected fault, unwind 6"),
        H("libfs", "c05_uspace_witness", witness=True),
        H("libfs", "c05_range_uspace_t", tier="thorough", bounds="file <= 6 bytes, 2 faults, unwind 8",
          covers=["ok after a short read"], timeout=3600, mem_gb=24),
        H("libfs", "c05_bytes_uspace_t", tier="thorough", bounds="file <= 6 bytes, 2 faults, 2 EINTR, unwind 8",
          covers=["ok after a short read or write"], timeout=3600, mem_gb=24),
    ],
}
