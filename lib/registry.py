"""Which harnesses / lemmas decide which property (DESIGN.md §4)."""
from xv import Harness as H

PROPS = {}
NOT_APPLICABLE = {}

PROPS["C05"] = {
    "level_text": "Bounded model checking (Kani/CBMC) of libfs's real copy loops over a nondeterministic syscall model: "
                  "every legal short count and errno at every call is a solver variable; exhaustive within the stated file-size and fault bounds",
    "level_note": "trusted: the syscall model in harness/libfs/lib.rs (POSIX short-count contract), Kani's translation of MIR, CBMC; "
                  "files <= 4 bytes quick / 6 thorough; larger files outside the claim",
    "functions": ["libfs::common::copy_range_uspace", "libfs::common::copy_bytes_uspace",
                  "libfs::common::read_bytes", "libfs::common::write_bytes"],
    "assumptions": [
        "syscall model: pread/read return any count in 1..=min(len, available) or 0 at EOF; pwrite any count in 0..=len; "
        "write() >= 1 for non-empty buffers; at most N injected hard errors; EINTR at most twice (harness/libfs/lib.rs)",
        "source not modified while it is copied",
    ],
    "kani": [
        H("libfs", "c05_range_uspace_q", bounds="file <= 4 bytes, 1 injected fault, unwind 6",
          covers=["ok after a short read", "full-size request", "injected fault reported"]),
        H("libfs", "c05_range_uspace_zero", bounds="n = 0"),
        H("libfs", "c05_bytes_uspace_short_q", bounds="file <= 3 bytes, short reads/writes, unwind 6",
          covers=["ok after a short read or write"]),
        H("libfs", "c05_bytes_uspace_eintr_q", bounds="file <= 2 bytes, 1 EINTR, unwind 6",
          covers=["ok after EINTR"]),
        H("libfs", "c05_bytes_uspace_fault_q", bounds="file <= 2 bytes, 1 injected fault, unwind 6"),
        H("libfs", "c05_uspace_witness", witness=True),
        H("libfs", "c05_range_uspace_t", tier="thorough", bounds="file <= 6 bytes, 2 faults, unwind 8",
          covers=["ok after a short read"], timeout=3600, mem_gb=24),
    ],
}


def E(name, module, func, tier="quick", **kw):
    d = {"name": name, "module": module, "func": func, "tier": tier}
    d.update(kw)
    return d


E2_TECH = "forking symbolic execution of rustc MIR of the real functions, path conditions and lemmas decided by z3 (cvc5 cross-check)"
KANI_TECH = "bounded model checking of the real code with Kani/CBMC (CaDiCaL) over nondeterministic syscall stubs"
BOTH_TECH = "symbolic execution of the real code: MIR->SMT (z3, cvc5 cross-check) for libxcp logic, Kani/CBMC for libfs I/O loops"

L2_ASSUME = [
    "libfs contracts used as call summaries at the libxcp level (harness-checked at L1 where a Kani harness exists): "
    "copy_file_bytes/copy_file_offset return Ok(k) with 1 <= k <= request or Err; next_sparse_segments returns pos <= data <= hole <= len with progress",
    "source files are not modified while they are copied",
    "logging is disabled (log level checks evaluate to false); formatting calls are opaque",
]

PROPS["C01"] = {
    "engine": "mir-smt", "technique": BOTH_TECH,
    "level_text": "MIR-level symbolic execution of both copy paths with SMT-decided lemmas: the parfile copy loop and the sparse segment walk by "
                  "one inductive step from an arbitrary loop state (any length, block size, short counts), the parblock partition for an arbitrary "
                  "block index over full 64-bit ranges, the block job against the copy_file_offset contract, and the range selection of queue_file_blocks",
    "level_note": "trusted: the MIR parser/interpreter in /verif/mirsmt, the call summaries listed under assumptions, z3 (cvc5 cross-check on lemma queries); "
                  "extent lists bounded to 2 (quick) / 3 (thorough) extents; Driver::copy thread plumbing not executed",
    "assumptions": L2_ASSUME,
    "e2": [
        E("copy_bytes_step", "p_copy", "lemma_copy_bytes"),
        E("copy_sparse_step", "p_copy", "lemma_copy_sparse"),
        E("copy_file", "p_copy", "lemma_copy_file"),
        E("partition", "p_parblock", "lemma_partition"),
        E("block_job", "p_parblock", "lemma_block_job"),
        E("queue_file_blocks", "p_parblock", "lemma_queue_file_blocks"),
    ],
}
PROPS["C10"] = {
    "engine": "mir-smt", "technique": E2_TECH,
    "level_text": "all paths of finalise_copy / Drop for CopyHandle enumerated symbolically over every flag combination and every step outcome; "
                  "order, once-only and flag lemmas decided by z3",
    "level_note": "trusted: MIR interpreter + summaries of libfs::copy_permissions/copy_timestamps/copy_owner/sync (their bodies are L1 obligations); "
                  "the kernel rule that fchown clears set-id bits is encoded as the ordering lemma",
    "assumptions": L2_ASSUME,
    "e2": [E("finalise", "p_finalise", "lemma_finalise"), E("queue_file_blocks", "p_parblock", "lemma_queue_file_blocks"),
           E("block_job", "p_parblock", "lemma_block_job")],
}
PROPS["C18"] = {
    "engine": "mir-smt", "technique": E2_TECH,
    "level_text": "fsync is the last finalisation step on every path; finalisation is tied to the last reference of the handle "
                  "(Arc count model) in queue_file_blocks and the block job",
    "level_note": "trusted: MIR interpreter, Arc reference-count model; cross-thread ordering beyond Arc's contract is assumed",
    "assumptions": L2_ASSUME + ["Arc drops the inner value exactly when the last clone is dropped"],
    "e2": [E("finalise", "p_finalise", "lemma_finalise"), E("queue_file_blocks", "p_parblock", "lemma_queue_file_blocks")],
}
PROPS["C04"] = {
    "engine": "mir-smt", "technique": E2_TECH,
    "level_text": "every fallible environment call forks into Ok/Err; on each Err path the function must return Err or send an Error update",
    "level_note": "trusted: MIR interpreter; main's conversion of Err/Error-update into the exit status is read from the code, not executed",
    "assumptions": L2_ASSUME,
    "e2": [E("copy_bytes_step", "p_copy", "lemma_copy_bytes"), E("copy_sparse_step", "p_copy", "lemma_copy_sparse"),
           E("copy_file", "p_copy", "lemma_copy_file"), E("finalise", "p_finalise", "lemma_finalise"),
           E("drop", "p_finalise", "lemma_drop"), E("block_job", "p_parblock", "lemma_block_job"),
           E("queue_file_blocks", "p_parblock", "lemma_queue_file_blocks")],
}
PROPS["C15"] = {
    "engine": "mir-smt", "technique": E2_TECH,
    "level_text": "all reflink modes x clone outcomes {ok, unsupported, error} enumerated through try_reflink in copy_file and queue_file_blocks",
    "level_note": "trusted: MIR interpreter; libfs::reflink's errno classification is an L1 obligation",
    "assumptions": L2_ASSUME,
    "e2": [E("copy_file", "p_copy", "lemma_copy_file"), E("queue_file_blocks", "p_parblock", "lemma_queue_file_blocks")],
}
PROPS["C05"]["e2"] = [E("copy_bytes_step", "p_copy", "lemma_copy_bytes"), E("block_job", "p_parblock", "lemma_block_job")]
PROPS["C05"]["technique"] = BOTH_TECH


LIBFS_ASSUME = [
    "kernel contract used by the libfs-level summaries: copy_file_range returns Ok(k <= request) or an errno; lseek(SEEK_DATA/SEEK_HOLE) answers within [arg, len] "
    "(data offsets are not holes, EOF is a hole, ENXIO when nothing further); FIEMAP returns sorted non-overlapping extents starting at fm_start, LAST only on the final extent",
    "file offsets fit off_t (<= 2^63-1)",
]

PROPS["C19"] = {
    "engine": "mir-smt", "technique": E2_TECH,
    "level_text": "symbolic execution of merge_extents for every sorted extent list of up to 4 (quick) / 6 (thorough) extents over symbolic 64-bit offsets with a "
                  "universally quantified byte position; map_extents paging over the FIEMAP contract; next_sparse_segments over the SEEK_DATA/SEEK_HOLE contract",
    "level_note": "trusted: MIR interpreter, Vec model (concrete length per path), the kernel contracts listed under assumptions; lists longer than the bound and pages fuller than 2 extents are outside",
    "assumptions": LIBFS_ASSUME,
    "e2": [E("merge_extents", "p_libfs", "lemma_merge_extents"), E("map_extents", "p_libfs", "lemma_map_extents"),
           E("fiemap_call", "p_libfs", "lemma_fiemap_call"), E("sparse_segments", "p_libfs", "lemma_sparse_segments")],
}
PROPS["C11"] = {
    "engine": "mir-smt", "technique": E2_TECH,
    "level_text": "code-side obligations of hole preservation, each decided symbolically: the heuristic, the segment search (cursors repositioned to the data start, "
                  "only [data, hole) copied), the destination sized by ftruncate only, parblock queues only mapped extents",
    "level_note": "assumed: a range that is never written after ftruncate occupies no blocks (filesystem contract); real st_blocks is not modelled",
    "assumptions": L2_ASSUME + LIBFS_ASSUME + ["filesystem contract: never-written ranges after ftruncate are holes"],
    "e2": [E("probably_sparse", "p_libfs", "lemma_probably_sparse"), E("sparse_segments", "p_libfs", "lemma_sparse_segments"),
           E("copy_sparse_step", "p_copy", "lemma_copy_sparse"), E("queue_file_blocks", "p_parblock", "lemma_queue_file_blocks"),
           E("metadata_helpers", "p_libfs", "lemma_metadata_helpers"), E("handle_new", "p_handle", "lemma_handle_new")],
}
PROPS["C14"] = {
    "engine": "mir-smt", "technique": E2_TECH,
    "level_text": "copy_node and the Special arms of both workers enumerated symbolically: node type/mode/device-number provenance, remove-then-mknod order, no-clobber, never opened",
    "level_note": "trusted: MIR interpreter; mknod's own umask handling is the kernel's; walker classification is covered under C02's walker lemmas when claimed",
    "assumptions": L2_ASSUME,
    "e2": [E("copy_node", "p_libfs", "lemma_copy_node"), E("copy_worker", "p_workers", "lemma_copy_worker"),
           E("dispatch_worker", "p_workers", "lemma_dispatch_worker")],
}
PROPS["C12"] = {
    "engine": "mir-smt", "technique": E2_TECH,
    "level_text": "ChannelUpdater::send for arbitrary running totals/block sizes; Copied(n) == kernel count in the parfile loop (inductive step) and the block job",
    "level_note": "trusted: MIR interpreter; cross-thread ordering of Size before Copied rests on channel FIFO + program order (not executed); stream end (Arc drop of the updater) is structural",
    "assumptions": L2_ASSUME,
    "e2": [E("channel_updater", "p_feedback", "lemma_channel_updater"), E("copy_bytes_step", "p_copy", "lemma_copy_bytes"),
           E("block_job", "p_parblock", "lemma_block_job")],
}
PROPS["C03"] = {
    "engine": "mir-smt", "technique": E2_TECH,
    "level_text": "CopyHandle::new explored with a symbolic alias relation between source and destination: any mutating call reachable while they are the same inode is a violation; "
                  "sources only opened read-only; worker arms never mutate the source path",
    "level_note": "trusted: MIR interpreter, summaries of std::fs; kill points = prefixes of the mutating-call sequence of one operation; main's textual check is covered under C16 when claimed",
    "assumptions": L2_ASSUME,
    "e2": [E("handle_new", "p_handle", "lemma_handle_new"), E("copy_worker", "p_workers", "lemma_copy_worker"),
           E("dispatch_worker", "p_workers", "lemma_dispatch_worker")],
}
PROPS["C20"] = {
    "engine": "mir-smt", "technique": E2_TECH,
    "level_text": "invariant instead of big trees: the dispatcher keeps no handle after queue_file_blocks returns, a parfile worker drops its handle before the next recv, "
                  "the block pool is built with a constant queue bound and `workers` threads",
    "level_note": "assumed: blocking-threadpool's bounded queue blocks the producer when full; RLIMIT arithmetic (2*(128+workers+1) descriptors) is a remark",
    "assumptions": L2_ASSUME + ["blocking-threadpool: execute() blocks while queue_len jobs are pending"],
    "e2": [E("queue_file_blocks", "p_parblock", "lemma_queue_file_blocks"), E("copy_worker", "p_workers", "lemma_copy_worker"),
           E("dispatch_worker", "p_workers", "lemma_dispatch_worker"), E("partition", "p_parblock", "lemma_partition")],
}
PROPS["C04"]["e2"] += [E("handle_new", "p_handle", "lemma_handle_new"), E("copy_worker", "p_workers", "lemma_copy_worker"),
                       E("dispatch_worker", "p_workers", "lemma_dispatch_worker"), E("cfr", "p_libfs", "lemma_cfr"),
                       E("metadata_helpers", "p_libfs", "lemma_metadata_helpers"), E("map_extents", "p_libfs", "lemma_map_extents"),
                       E("sparse_segments", "p_libfs", "lemma_sparse_segments"), E("copy_node", "p_libfs", "lemma_copy_node"),
                       E("channel_updater", "p_feedback", "lemma_channel_updater")]
PROPS["C05"]["e2"] += [E("cfr", "p_libfs", "lemma_cfr"), E("fiemap_call", "p_libfs", "lemma_fiemap_call"), E("map_extents", "p_libfs", "lemma_map_extents"),
                       E("reflink", "p_libfs", "lemma_reflink"), E("queue_file_blocks", "p_parblock", "lemma_queue_file_blocks")]
PROPS["C05"]["assumptions"] += LIBFS_ASSUME
PROPS["C15"]["e2"] += [E("reflink", "p_libfs", "lemma_reflink")]
PROPS["C10"]["e2"] += [E("metadata_helpers", "p_libfs", "lemma_metadata_helpers"), E("copy_worker", "p_workers", "lemma_copy_worker")]
PROPS["C18"]["e2"] += [E("metadata_helpers", "p_libfs", "lemma_metadata_helpers"), E("copy_worker", "p_workers", "lemma_copy_worker")]
PROPS["C01"]["e2"] += [E("handle_new", "p_handle", "lemma_handle_new"), E("sparse_segments", "p_libfs", "lemma_sparse_segments"),
                       E("metadata_helpers", "p_libfs", "lemma_metadata_helpers")]


WALK_ASSUME = [
    "walkdir contract: pre-order walk that yields the root first and every descendant after its parent; filter_entry applies the predicate to every entry and prunes rejected directories; "
    "per-entry induction: the loop body carries no state across entries except the per-source constants (target_base, gitignore)",
    "paths are abstract structural terms over src/dest/rel (std's path parsing -- trailing slashes, `.`/`..` spellings, non-UTF-8 bytes -- is not interpreted)",
    "canonicalize() never returns a symbolic link",
]

PROPS["C02"] = {
    "engine": "mir-smt", "technique": E2_TECH,
    "level_text": "tree_walker symbolically executed for the root of a source and one arbitrary descendant, all 8 entry kinds, all flags, every call fallible: "
                  "emitted operation/target compared with an independent statement of cp's mapping rule; worker arms act on exactly (from, to)",
    "level_note": "trusted: MIR interpreter, walkdir/std::path summaries (structural path algebra); --glob expansion and multi-byte/odd spellings are outside",
    "assumptions": L2_ASSUME + WALK_ASSUME,
    "e2": [E("tree_walker", "p_walker", "lemma_tree_walker"), E("copy_worker", "p_workers", "lemma_copy_worker"),
           E("dispatch_worker", "p_workers", "lemma_dispatch_worker"), E("main", "p_main", "lemma_main")],
}
PROPS["C08"] = {
    "engine": "mir-smt", "technique": E2_TECH,
    "level_text": "no-clobber: the walker's probe precedes every action on an entry and a collision ends the walk with an Error update; the workers' second check for special files",
    "level_note": "trusted: as C02; a dangling symlink at the destination is 'absent' for exists() (noted, outside); races between the probe and other processes are outside",
    "assumptions": L2_ASSUME + WALK_ASSUME,
    "e2": [E("tree_walker", "p_walker", "lemma_tree_walker"), E("copy_worker", "p_workers", "lemma_copy_worker"),
           E("dispatch_worker", "p_workers", "lemma_dispatch_worker"), E("main", "p_main", "lemma_main")],
}
PROPS["C13"] = {
    "engine": "mir-smt", "technique": E2_TECH,
    "level_text": "--dereference: every walked path is canonicalised before classification, no Link operation can be emitted, resolution failures end the walk; "
                  "the walk must be told to follow links to directories",
    "level_note": "trusted: as C02; link chains are the kernel's (canonicalize contract)",
    "assumptions": L2_ASSUME + WALK_ASSUME,
    "e2": [E("tree_walker", "p_walker", "lemma_tree_walker")],
}
PROPS["C17"] = {
    "engine": "mir-smt", "technique": E2_TECH,
    "level_text": "wiring only: the matcher is built from <source>/.gitignore rooted at the source, every walked entry is put to it with its own path and is_dir, "
                  "an entry is skipped iff the matcher says ignore, nothing else filters, option off => matcher never consulted",
    "level_note": "git's pattern semantics live in the ignore/globset crates and are trusted (uninterpreted predicate); is_dir() follows symlinks (deviation from git noted in DESIGN.md)",
    "assumptions": L2_ASSUME + WALK_ASSUME + ["Gitignore::matched is an uninterpreted predicate of (path, is_dir)"],
    "e2": [E("tree_walker", "p_walker", "lemma_tree_walker")],
}
PROPS["C16"] = {
    "engine": "mir-smt", "technique": E2_TECH,
    "level_text": "main() symbolically executed for 0..3 positional arguments with/without --target-directory, literal and globbed sources, all flags and file-system probes symbolic: "
                  "on every path that starts the copy, none of the rejection classes (stated independently over the same atoms) is satisfiable; rejected paths never load a driver",
    "level_note": "trusted: MIR interpreter; clap's own parsing and the glob crate are outside (Opts::from_args / expand_sources are summarised); 'no side effects' = no callee of main before the spawn mutates (every callee has a read-only summary, unknown callees abort the check)",
    "assumptions": ["clap rejects unknown flags/values before main's logic runs", "glob expansion either fails or returns a list"],
    "e2": [E("main", "p_main", "lemma_main"), E("config_from_opts", "p_main", "lemma_config_from_opts")],
}
PROPS["C06"] = {
    "engine": "mir-smt", "technique": E2_TECH,
    "level_text": "schedule independence by footprint: block jobs of a file write pairwise disjoint ranges (partition lemma, any index) and only inside their own block; "
                  "finalisation is tied to the last handle reference; worker arms touch only their own (from, to); directories are created synchronously before children are queued; "
                  "copy() joins every thread",
    "level_note": "assumed: operations on distinct destination paths commute (footprint argument), Arc/thread::join/channel contracts; two sources mapping onto one target are outside (then the outcome is schedule-dependent)",
    "assumptions": L2_ASSUME + WALK_ASSUME + ["operations whose footprints are disjoint commute"],
    "e2": [E("partition", "p_parblock", "lemma_partition"), E("block_job", "p_parblock", "lemma_block_job"),
           E("queue_file_blocks", "p_parblock", "lemma_queue_file_blocks"), E("copy_worker", "p_workers", "lemma_copy_worker"),
           E("dispatch_worker", "p_workers", "lemma_dispatch_worker"), E("tree_walker", "p_walker", "lemma_tree_walker"),
           E("driver_copy", "p_drivers", "lemma_driver_copy")],
}
PROPS["C07"] = {
    "engine": "mir-smt", "technique": BOTH_TECH,
    "level_text": "termination by progress lemmas: every copy loop strictly advances (inductive steps), the walker drops the only sender on every exit, workers end on a closed queue, "
                  "the dispatcher joins its pool, copy() joins every thread, main leaves its loop on Error/closure; special files are never opened; Kani unwinding assertions bound the libfs loops",
    "level_note": "assumed: unbounded channels never block senders; blocking-threadpool workers do not block; real-time bounds are outside",
    "assumptions": L2_ASSUME + ["std::thread / crossbeam-channel / blocking-threadpool liveness contracts"],
    "e2": [E("copy_bytes_step", "p_copy", "lemma_copy_bytes"), E("copy_sparse_step", "p_copy", "lemma_copy_sparse"),
           E("sparse_segments", "p_libfs", "lemma_sparse_segments"), E("tree_walker", "p_walker", "lemma_tree_walker"),
           E("copy_worker", "p_workers", "lemma_copy_worker"), E("dispatch_worker", "p_workers", "lemma_dispatch_worker"),
           E("driver_copy", "p_drivers", "lemma_driver_copy"), E("main", "p_main", "lemma_main")],
}
PROPS["C01"]["e2"] += [E("config_from_opts", "p_main", "lemma_config_from_opts")]
PROPS["C03"]["e2"] += [E("main", "p_main", "lemma_main")]
PROPS["C04"]["e2"] += [E("tree_walker", "p_walker", "lemma_tree_walker"), E("main", "p_main", "lemma_main"), E("driver_copy", "p_drivers", "lemma_driver_copy")]
PROPS["C12"]["e2"] += [E("tree_walker", "p_walker", "lemma_tree_walker"), E("main", "p_main", "lemma_main"), E("driver_copy", "p_drivers", "lemma_driver_copy")]
PROPS["C14"]["e2"] += [E("tree_walker", "p_walker", "lemma_tree_walker")]
PROPS["C20"]["e2"] += [E("driver_copy", "p_drivers", "lemma_driver_copy"), E("fiemap_call", "p_libfs", "lemma_fiemap_call")]
for _p in ("C01", "C02"):
    PROPS[_p]["e2"] += [E("driver_copy", "p_drivers", "lemma_driver_copy")]
for _p in ("C07", "C16"):
    PROPS[_p]["e2"] += [E("load_driver", "p_drivers", "lemma_load_driver")]

PROPS["C11"]["e2"] += [E("copy_file", "p_copy", "lemma_copy_file")]

PROPS["C09"] = {
    "engine": "mir-smt", "technique": E2_TECH,
    "level_text": "backup.rs symbolically executed over bounded symbolic file names (one integer per character): which siblings are recognised as backups (against an independent "
                  "statement of <name>.~N~), next number greater than every existing one for arbitrary directory listings (one inductive step of the history), backup path construction; "
                  "CopyHandle::new: rename strictly before the destination is re-created, failed rename never followed by a create (kill/fault safety as prefixes of the mutating-call sequence)",
    "level_note": "trusted: MIR interpreter; summaries of std::path/OsStr/regex/str::parse (the regex pattern is read from the code and interpreted for the supported subset); "
                  "names up to 12 (quick) / 26 (thorough) characters, listings of 2 / 3 siblings; which directory is scanned (ls_file_dir) is executed over an abstract path, the ReadDir iteration itself is a summary",
    "assumptions": L2_ASSUME + ["rename(2) is atomic", "the directory listing returned by read_dir contains every sibling"],
    "e2": [E("is_num_backup", "p_backup", "lemma_is_num_backup"), E("next_backup_num", "p_backup", "lemma_next_backup_num"),
           E("has_backup", "p_backup", "lemma_has_backup"), E("backup_path", "p_backup", "lemma_backup_path"), E("ls_file_dir", "p_backup", "lemma_ls_file_dir"),
           E("handle_new", "p_handle", "lemma_handle_new")],
}

PROPS["C01"]["e2"] += [E("partition_native", "p_parblock", "lemma_partition_native")]
PROPS["C06"]["e2"] += [E("partition_native", "p_parblock", "lemma_partition_native", tier="thorough")]

PROPS["C05"]["e2"] += [E("uspace_loops", "p_libfs", "lemma_uspace_loops")]
PROPS["C07"]["e2"] += [E("uspace_loops", "p_libfs", "lemma_uspace_loops")]
PROPS["C04"]["e2"] += [E("uspace_loops", "p_libfs", "lemma_uspace_loops")]

# two sources in one walk (per-source state recomputed for the second source): ~20 min since the model explores spellings,
# root links and stat failures, so it belongs to the thorough tier; the quick tier has the single-source lemma
for _p in ("C02", "C08", "C17"):
    PROPS[_p]["e2"] += [E("tree_walker_two_sources", "p_walker", "lemma_tree_walker_two_sources", tier="thorough")]
PROPS["C06"]["e2"] += [E("uspace_loops", "p_libfs", "lemma_uspace_loops")]
PROPS["C11"]["e2"] += [E("copy_bytes_step", "p_copy", "lemma_copy_bytes")]
PROPS["C03"]["e2"] += [E("is_same_file", "p_libfs", "lemma_is_same_file")]

# option wiring: each option-driven property also depends on its option reaching the library configuration
for _p in ("C02", "C06", "C08", "C09", "C10", "C13", "C15", "C17", "C18", "C20"):
    PROPS[_p]["e2"] += [E("config_from_opts", "p_main", "lemma_config_from_opts")]
PROPS["C07"]["e2"] += [E("block_job", "p_parblock", "lemma_block_job"), E("queue_file_blocks", "p_parblock", "lemma_queue_file_blocks")]
PROPS["C18"]["e2"] += [E("block_job", "p_parblock", "lemma_block_job")]
# the kernel-copy wrappers and the extent map are part of what "byte-identical" (C01) and "holes stay holes" (C11) rest on
PROPS["C01"]["e2"] += [E("cfr", "p_libfs", "lemma_cfr"), E("map_extents", "p_libfs", "lemma_map_extents"), E("merge_extents", "p_libfs", "lemma_merge_extents")]
PROPS["C11"]["e2"] += [E("map_extents", "p_libfs", "lemma_map_extents"), E("merge_extents", "p_libfs", "lemma_merge_extents")]
# translator validation of the MIR interpreter against compiled code (not a property lemma: it guards the trusted base)
for _p in ("C01", "C19"):
    PROPS[_p]["e2"] += [E("interpreter_selftest", "p_selftest", "lemma_interpreter_selftest")]
PROPS["C11"]["e2"] += [E("partition", "p_parblock", "lemma_partition")]
PROPS["C06"]["e2"] += [E("copy_node", "p_libfs", "lemma_copy_node")]
PROPS["C10"]["e2"] += [E("copy_xattr", "p_libfs", "lemma_copy_xattr")]
# CopyHandle::new decides what happens at the destination path itself (created through a dangling link? truncated?)
for _p in ("C02", "C08"):
    PROPS[_p]["e2"] += [E("handle_new", "p_handle", "lemma_handle_new")]
