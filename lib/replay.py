"""Counterexample recording and replay (DESIGN.md §2.5).

record(): turns a failing harness / lemma into a replay file under
/verif/evidence/replays/.  Where a native replayer exists for the harness family it
is run against the real binary built from the same working tree and must reproduce;
otherwise the solver's concrete trace (Kani concrete playback values / the SMT model)
is stored and the replay is the model-level one ("replay=model").
"""
import json
import os
import re
import subprocess
import time

import xv

REPLAY_DIR = os.path.join(xv.EVIDENCE_DIR, "replays")


def _playback_values(scr, h):
    """Re-run the failing harness with concrete playback to obtain the solver's assignment."""
    cmd = ["cargo", "kani", "--target-dir", scr.target, "--harness", h.name,
           "-Z", "stubbing", "-Z", "unstable-options", "--no-assertion-reach-checks",
           "-Z", "concrete-playback", "--concrete-playback=print"] + h.flags
    cwd = os.path.join(scr.src, xv.CRATE_DIR[h.crate])
    try:
        p = subprocess.Popen(cmd, cwd=cwd, env=xv.ENV, stdout=subprocess.PIPE, stderr=subprocess.STDOUT,
                             text=True, preexec_fn=xv._limits(h.mem_gb))
        try:
            out = p.communicate(timeout=min(h.timeout, 900))[0]
        except subprocess.TimeoutExpired:
            xv._killpg(p)
            p.communicate()
            return None
    except OSError:
        return None
    m = re.search(r"```\n(.*?)```", out, re.S)
    if not m:
        return None
    vals = re.findall(r"//\s*(.+)\n\s*vec!\[([^\]]*)\]", m.group(1))
    return [{"value": v.strip(), "bytes": b.strip()} for v, b in vals]


def native_confirm(prop, lemma, scr):
    """try to reproduce a failing lemma against the REAL binary built from the same working tree, using the
    demonstration scripts kept with the seeded changes (each exercises one failure class natively).
    -> list of {"demo": path, "exit": rc}; exit 1 = the real code shows the violation"""
    import glob
    out = []
    tree = os.path.join(scr.root, "nativesrc")
    built = False
    for mp in sorted(glob.glob(os.path.join(xv.VERIF, "seeded", "*", "meta.json"))):
        try:
            m = json.load(open(mp))
        except Exception:
            continue
        if m.get("breaks_property") != prop or not m.get("native_fast") or not m.get("native_for"):
            continue
        if not re.search(m["native_for"], lemma):
            continue
        demo = os.path.join(os.path.dirname(mp), "demo.sh")
        if not os.path.exists(demo):
            continue
        if not built:
            subprocess.call(["rsync", "-a", "--delete", "--exclude", "/target", "--exclude", "/.git", xv.REPO + "/", tree + "/"])
            seed_t = os.path.join(xv.REPO, "target") if os.path.isdir(os.path.join(xv.REPO, "target")) else "/repo/target"
            if os.path.isdir(seed_t) and not os.path.isdir(os.path.join(tree, "target")):
                subprocess.call(["cp", "-a", seed_t, os.path.join(tree, "target")])
            b = subprocess.run(["cargo", "build", "--offline", "-q"], cwd=tree, env=xv.ENV, capture_output=True, text=True)
            if b.returncode != 0:
                return out
            built = True
        # demos with a probe crate build next to themselves: run a private copy so nothing under /verif is written
        priv = os.path.join(scr.root, "demo-" + os.path.basename(os.path.dirname(mp)))
        subprocess.call(["rsync", "-a", "--delete", "--exclude", "target", os.path.dirname(mp) + "/", priv + "/"])
        demo_run = os.path.join(priv, "demo.sh")
        try:
            r = subprocess.run(["bash", demo_run, tree], capture_output=True, text=True, timeout=600, env=xv.ENV)
            out.append({"demo": demo, "exit": r.returncode, "tail": (r.stdout + r.stderr)[-400:]})
        except subprocess.TimeoutExpired:
            out.append({"demo": demo, "exit": "timeout"})
    if built and os.environ.get("XCP_VERIF_KEEP") != "1":
        import shutil
        shutil.rmtree(tree, ignore_errors=True)
    return out


def record(prop, name, kind, r, detail, scr):
    os.makedirs(REPLAY_DIR, exist_ok=True)
    path = os.path.join(REPLAY_DIR, "%s-%s.json" % (prop, name))
    doc = {"property": prop, "harness": name, "engine": kind, "detail": detail,
           "when": time.strftime("%Y-%m-%dT%H:%M:%S"), "replay": "model"}
    confirmed = False
    if kind == "kani":
        h = [x for x in __import__("registry").PROPS[prop]["kani"] if x.name == name][0]
        doc["failed_checks"] = r.get("failed", [])[:20]
        vals = _playback_values(scr, h)
        doc["assignment"] = vals
        confirmed = vals is not None or bool(r.get("failed"))
        doc["how"] = ("cd <scratch>/%s && cargo kani -Z stubbing --harness %s  (harness file under /verif/harness; "
                      "assignment = values of kani::any() in call order)" % (xv.CRATE_DIR[h.crate], name))
    else:
        doc.update({k: r[k] for k in ("counterexample", "lemma", "function", "bad_key", "bounds", "functions") if k in r})
        name = name + "-" + re.sub(r"\W+", "_", str(r.get("bad_key", "")))[:60]
        path = os.path.join(REPLAY_DIR, "%s-%s.json" % (prop, name))
        doc["harness"] = name.split("-")[0]
        confirmed = bool(r.get("replayed", False))
        doc["how"] = r.get("how", "")
        doc["model_replay"] = "the counterexample's values were pinned and the lemma re-decided on that single point: still violated" if confirmed else "not confirmed"
        if confirmed and os.environ.get("XCP_VERIF_NO_NATIVE") != "1":
            nat = native_confirm(prop, str(r.get("lemma", "")), scr)
            if nat:
                doc["native"] = nat
                if any(x.get("exit") == 1 for x in nat):
                    doc["replay"] = "native"
    native = r.get("native_replay")
    if native:
        doc["native"] = native
        doc["replay"] = "native"
    with open(path, "w") as f:
        json.dump(doc, f, indent=1, default=str)
    return path, confirmed


def replay(prop, path):
    doc = json.load(open(path))
    print(json.dumps(doc, indent=1)[:4000])
    # re-run the one harness / lemma that produced it
    import driver
    return driver.main([prop, "--tier", "thorough", "--only", doc["harness"]])
