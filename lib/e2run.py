"""Run one E2 (MIR -> SMT) lemma group for the driver."""
import importlib
import os
import re
import subprocess
import sys
import time
import traceback

import xv

sys.path.insert(0, os.path.join(xv.VERIF, "mirsmt"))

CRATES = {"libfs": ["-p", "libfs", "--lib"], "libxcp": ["-p", "libxcp", "--lib"], "xcp": ["-p", "xcp", "--bin", "xcp"]}


def mir_for(scr, crate, features=()):
    """dump + parse the MIR of one crate from the scratch copy (cached per scratch)"""
    import mir
    cache = scr.__dict__.setdefault("_mir", {})
    key = (crate, tuple(features))
    if key in cache:
        return cache[key]
    src = os.path.join(scr.root, "mirsrc")
    if not cache:
        subprocess.check_call(["rsync", "-a", "--delete", "--exclude", "/target", "--exclude", "/.git", xv.REPO + "/", src + "/"])
    tdir = os.path.join(scr.root, "mirtarget")
    seed = os.path.join(xv.SEED_DIR, "mir-target")
    if not os.path.isdir(tdir) and os.path.isdir(seed):
        subprocess.call(["cp", "-a", seed, tdir])
    out = os.path.join(scr.root, "%s%s.mir" % (crate, "-" + "_".join(features) if features else ""))
    # touch the crate root so cargo re-runs rustc (an up-to-date crate prints nothing)
    for root in ("libfs/src/lib.rs", "libxcp/src/lib.rs", "src/main.rs"):
        os.utime(os.path.join(src, root))
    cmd = ["cargo", "+nightly", "rustc", "--offline"] + CRATES[crate] + list(features) + \
          ["--", "-Zunpretty=mir", "-C", "debug-assertions=off", "-C", "overflow-checks=on"]
    env = dict(xv.ENV, CARGO_TARGET_DIR=tdir)
    with open(out, "w") as f:
        r = subprocess.run(cmd, cwd=src, env=env, stdout=f, stderr=subprocess.PIPE, text=True)
    if r.returncode != 0 or os.path.getsize(out) == 0:
        raise RuntimeError("MIR dump failed for %s: %s" % (crate, r.stderr[-2000:]))
    funcs = mir.parse_mir(open(out).read())
    add_impl_aliases(funcs, src)
    cache[key] = funcs
    return funcs


def add_impl_aliases(funcs, src):
    """`Type::method` / `<Type as Trait>::method` aliases for `<impl at file:line:col..>::method` names"""
    files = {}
    for name in list(funcs):
        m = re.search(r"<impl at ([^:>]+):(\d+):(\d+): \d+:\d+>::(.+)$", name)
        if not m:
            continue
        path, line, rest = m.group(1), int(m.group(2)), m.group(4)
        if path not in files:
            try:
                files[path] = open(os.path.join(src, path), errors="replace").read().split("\n")
            except OSError:
                files[path] = None
        lines = files[path]
        if not lines or line > len(lines):
            continue
        hdr = " ".join(lines[line - 1:line + 2])
        mm = re.search(r"impl(?:<[^>]*>)?\s+(?:([\w:]+(?:<[^{]*?>)?)\s+for\s+)?(&?[\w:]+)", hdr)
        if not mm:
            # derive attribute: the impl is generated for the item that follows
            mm2 = re.search(r"(?:struct|enum)\s+(\w+)", " ".join(lines[line - 1:line + 6]))
            if not mm2:
                continue
            ty = mm2.group(1)
            trait = {"eq": "PartialEq", "ne": "PartialEq", "clone": "Clone", "fmt": "Debug", "default": "Default", "cmp": "Ord",
                     "partial_cmp": "PartialOrd", "hash": "Hash"}.get(rest.split("::")[0])
        else:
            trait, ty = mm.group(1), mm.group(2)
        ty = ty.split("::")[-1]
        if trait:
            funcs.setdefault("<%s as %s>::%s" % (ty, trait.split("::")[-1].split("<")[0], rest), funcs[name])
            if trait.split("<")[0] != trait:
                funcs.setdefault("<%s as %s>::%s" % (ty, trait.split("::")[-1], rest), funcs[name])
        funcs.setdefault("%s::%s" % (ty, rest), funcs[name])


def source_enums(scr):
    """variant order of every `enum` in the three crates, parsed from the scratch sources"""
    enums = {}
    src = scr.src
    for dp, _dn, fns in os.walk(src):
        if "/target" in dp:
            continue
        for fn in fns:
            if not fn.endswith(".rs"):
                continue
            txt = open(os.path.join(dp, fn), errors="replace").read()
            for m in re.finditer(r"\benum\s+(\w+)\s*\{(.*?)\n\}", txt, re.S):
                body = re.sub(r"//[^\n]*", "", m.group(2))
                body = re.sub(r"#\[[^\]]*\]", "", body)
                names = []
                depth = 0
                cur = ""
                for ch in body:
                    if ch in "({<":
                        depth += 1
                    elif ch in ")}>":
                        depth -= 1
                    elif ch == "," and depth == 0:
                        names.append(cur)
                        cur = ""
                        continue
                    if depth == 0 or ch not in "\n":
                        cur += ch
                names.append(cur)
                vs = []
                for n in names:
                    mm = re.match(r"\s*(\w+)", n)
                    if mm:
                        vs.append(mm.group(1))
                if vs:
                    enums[m.group(1)] = vs
    return enums


def source_structs(scr):
    """field order of every braced `struct` in the three crates"""
    structs = {}
    for dp, _dn, fns in os.walk(scr.src):
        if "/target" in dp:
            continue
        for fn in fns:
            if not fn.endswith(".rs"):
                continue
            txt = open(os.path.join(dp, fn), errors="replace").read()
            for m in re.finditer(r"\bstruct\s+(\w+)\s*\{(.*?)\n\}", txt, re.S):
                body = re.sub(r"//[^\n]*", "", m.group(2))
                body = re.sub(r"#\[[^\]]*\]", "", body)
                fields = re.findall(r"^\s*(?:pub(?:\([^)]*\))?\s+)?(\w+)\s*:(?!:)", body, re.M)
                if fields:
                    structs[m.group(1)] = fields
    return structs


def run(scr, spec, seed, tier):
    t0 = time.time()
    res = {"verdict": "inconclusive", "detail": "", "queries": 0, "nontrivial": 0, "solver_s": 0.0,
           "functions": [], "lemmas": [], "paths": 0}
    try:
        mod = importlib.import_module("props." + spec["module"])
        ctx = Ctx(scr, spec, seed, tier)
        getattr(mod, spec["func"])(ctx)
        res.update(ctx.result())
    except Exception as e:  # EngineAbort, parse errors, ...: never a pass
        res["verdict"] = "inconclusive"
        res["detail"] = "%s: %s" % (type(e).__name__, str(e)[:500])
        if os.environ.get("XCP_VERIF_DEBUG"):
            traceback.print_exc()
    res["wall_s"] = round(time.time() - t0, 1)
    return res


class Ctx:
    def __init__(self, scr, spec, seed, tier):
        self.scr, self.spec, self.seed, self.tier = scr, spec, seed, tier
        self.lemmas = []
        self.engines = []
        self.bounds = spec.get("bounds", "")
        self.cvc5_checked = 0
        self.paths = 0

    def mir(self, crate, features=()):
        return mir_for(self.scr, crate, features)

    def enums(self):
        if not hasattr(self, "_enums"):
            self._enums = source_enums(self.scr)
        return self._enums

    def structs(self):
        if not hasattr(self, "_structs"):
            self._structs = source_structs(self.scr)
        return self._structs

    def field(self, struct, name):
        fs = self.structs().get(struct)
        if not fs or name not in fs:
            raise RuntimeError("field %s.%s not found in the sources" % (struct, name))
        return fs.index(name)

    def engine(self, crate, **kw):
        import sym
        import summaries
        eng = sym.Engine(self.mir(crate), self.enums(), **kw)
        sib = {"libxcp": ["libfs"], "xcp": ["libxcp", "libfs"]}.get(crate, [])
        eng.sibling_loader = lambda: [self.mir(c) for c in sib]
        summaries.install_common(eng)
        self.engines.append(eng)
        return eng

    # --- obligations
    def lemma(self, eng, name, pc, claim, key=None, info=None):
        """claim must follow from pc.  Records the verdict; cross-checks with cvc5."""
        import z3
        ok, model = eng.valid(pc, claim)
        # second solver: every failing query, and the first instances of every lemma (same query shape afterwards)
        cnt = self.__dict__.setdefault("_cv_count", {})
        cnt[name] = cnt.get(name, 0) + 1
        # (a lemma that fails on thousands of paths is cross-checked on its first failing instances only: one disagreement
        # would already make the verdict inconclusive, and a cvc5 process per instance turns a seeded break into an hour)
        fcnt = self.__dict__.setdefault("_cv_fail", {})
        if not ok:
            fcnt[name] = fcnt.get(name, 0) + 1
        agree = self._cvc5(pc, claim, ok) if ((not ok and fcnt[name] <= 3) or (ok and cnt[name] <= 3)) else "skipped"
        if self._dup(name, bool(ok), key):
            return ok
        entry = {"name": name, "ok": bool(ok), "key": key, "cvc5": agree}
        if not ok:
            entry["counterexample"] = {str(d): str(model[d]) for d in model.decls()} if model is not None else {}
            entry["replayed"] = self._replay_model(eng, pc, claim, model)
            if info:
                entry["info"] = info
        self.lemmas.append(entry)
        return ok

    def _dup(self, name, ok, key=None):
        for l in self.lemmas:
            if l["name"] == name and l["ok"] == ok and l.get("key") == key:
                l["count"] = l.get("count", 1) + 1
                return True
        return False

    def _replay_model(self, eng, pc, claim, model):
        """model-level replay: pin every symbolic input / environment answer to the counterexample's value and
        re-decide the lemma on that single concrete point; it must still be violated"""
        import z3
        if model is None:
            return False
        pins = []
        for d in model.decls():
            if d.arity() == 0:
                try:
                    pins.append(d() == model[d])
                except Exception:
                    pass
        try:
            sat, _ = eng.check(list(pc) + pins + [z3.Not(claim)])
        except Exception:
            return False
        return bool(sat)

    def fail(self, name, detail, key=None, info=None):
        if self._dup(name, False, key):
            return
        self.lemmas.append({"name": name, "ok": False, "key": key, "cvc5": "n/a", "structural": True,
                            "counterexample": {"detail": detail}, "info": info or {}})

    def passed(self, name, detail=""):
        if self._dup(name, True):
            return
        self.lemmas.append({"name": name, "ok": True, "key": None, "cvc5": "n/a", "structural": True, "detail": detail})

    def witness(self, eng, name, pc, extra=()):
        """non-vacuity: the situation is reachable (satisfiable)"""
        sat, _m = eng.check(list(pc) + list(extra))
        # a witness is existential over paths: satisfied on any path is enough
        for l in self.lemmas:
            if l.get("witness") and l["name"] == "witness:" + name:
                l["ok"] = l["ok"] or bool(sat)
                return sat
        self.lemmas.append({"name": "witness:" + name, "ok": bool(sat), "witness": True, "cvc5": "n/a"})
        return sat

    def _cvc5(self, pc, claim, z3_valid):
        import z3
        s = z3.Solver()
        for c in pc:
            s.add(c)
        s.add(z3.Not(claim))
        txt = "(set-logic ALL)\n" + s.to_smt2()
        try:
            r = subprocess.run(["cvc5", "--lang", "smt2", "--tlimit", "20000"], input=txt, capture_output=True, text=True, timeout=30)
        except Exception:
            return "timeout"
        out = r.stdout.strip().splitlines()
        if "(error" in r.stdout or not out:
            return "error"
        self.cvc5_checked += 1
        ans = out[0].strip()
        if ans == "unknown":
            return "unknown"
        if (ans == "unsat") != bool(z3_valid):
            return "DISAGREE"
        return "agree"

    def _relevant(self, l):
        """lemmas tagged `Cnn/Cmm: ...` count only for those properties; untagged ones for every user"""
        prop = self.spec.get("prop")
        n = l["name"][8:] if l["name"].startswith("witness:") else l["name"]
        m = re.match(r"^((?:C\d+/?)+):", n)
        if not m or not prop:
            return True
        return prop in m.group(1).split("/")

    def result(self):
        self.lemmas = [l for l in self.lemmas if self._relevant(l)]
        q = sum(e.queries for e in self.engines)
        ss = sum(e.solver_s for e in self.engines)
        fns = sorted(set().union(*[e.functions_encoded for e in self.engines])) if self.engines else []
        bad = [l for l in self.lemmas if not l["ok"] and not l.get("witness")]
        vac = [l for l in self.lemmas if l.get("witness") and not l["ok"]]
        dis = [l for l in self.lemmas if l.get("cvc5") == "DISAGREE"]
        verdict, detail = "ok", ""
        if dis:
            verdict, detail = "inconclusive", "z3 and cvc5 disagree on %s" % dis[0]["name"]
        elif vac:
            verdict, detail = "inconclusive", "vacuous: witness %s unsatisfiable" % vac[0]["name"]
        elif bad:
            verdict = "violation"
            detail = "; ".join("%s%s" % (l["name"], (" [" + l["key"] + "]") if l.get("key") else "") for l in bad[:6])
        if not self.lemmas:
            verdict, detail = "inconclusive", "no lemma was evaluated"
        proved = sorted(set(l["name"] for l in self.lemmas if l["ok"] and not l.get("witness") and not l["name"].startswith("witness")))
        r = {"verdict": verdict, "detail": detail, "queries": q, "solver_s": round(ss, 3), "functions": fns,
             "steps": sum(e.steps for e in self.engines), "proved": proved, "validated": getattr(self, "validated", 0),
             "cvc5_decided": sum(getattr(e, "cvc5_decided", 0) for e in self.engines),
             "nontrivial": sum(1 for l in self.lemmas if l["ok"] and l.get("witness")) or (1 if verdict == "ok" else 0),
             "lemmas": self.lemmas[:200], "bounds": self.bounds, "paths": self.paths,
             "solvers": "z3 %s (all queries) + cvc5 cross-check on %d lemma queries" % (__import__("z3").get_version_string(), self.cvc5_checked)}
        if bad:
            r["counterexample"] = bad[0].get("counterexample")
            r["lemma"] = bad[0]["name"]
            r["bad_keys"] = sorted(set(l.get("key") or l["name"] for l in bad))
            r["replayed"] = all(l.get("replayed", True) for l in bad)   # structural lemmas have no solver model to pin
            r["how"] = "re-run ./check %s --only %s; the counterexample is the solver model for the MIR path condition" % (self.spec.get("prop", "?"), self.spec["name"])
        return r
