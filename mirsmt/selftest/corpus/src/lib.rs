//! Differential self-test corpus for the MIR interpreter (/verif/mirsmt): every `t_*` function takes two u64 and returns
//! a u64 (or panics).  `corpus-native` prints the results the compiled code gives on a grid of inputs; the interpreter
//! must give the same answers, concretely and -- with symbolic inputs -- on every path that the grid point selects.
#![allow(clippy::all)]
use std::cmp;

#[derive(Clone, Copy, PartialEq, Debug)]
pub enum Kind { Small, Medium(u64), Large { lo: u64, hi: u64 } }

#[derive(Clone, Debug, PartialEq)]
pub struct Ext { pub start: u64, pub end: u64, pub shared: bool }

pub fn t_add(a: u64, b: u64) -> u64 { a + b }
pub fn t_sub(a: u64, b: u64) -> u64 { a - b }
pub fn t_mul(a: u64, b: u64) -> u64 { a * b }
pub fn t_div(a: u64, b: u64) -> u64 { a / b }
pub fn t_rem(a: u64, b: u64) -> u64 { a % b }
pub fn t_wrapping(a: u64, b: u64) -> u64 { a.wrapping_sub(b).wrapping_add(7) }
pub fn t_saturating(a: u64, b: u64) -> u64 { a.saturating_sub(b) + b.saturating_sub(a) }
pub fn t_checked(a: u64, b: u64) -> u64 { match a.checked_sub(b) { Some(x) => x, None => 999 } }
pub fn t_checked_add(a: u64, b: u64) -> u64 { a.checked_add(u64::MAX - 5).map(|x| x + b).unwrap_or(1) }
pub fn t_minmax(a: u64, b: u64) -> u64 { cmp::min(a, b) * 3 + cmp::max(a, b) }
pub fn t_ord_min(a: u64, b: u64) -> u64 { a.min(b) + a.max(b) * 2 }
pub fn t_div_ceil(a: u64, b: u64) -> u64 { a.div_ceil(b) }
pub fn t_abs_diff(a: u64, b: u64) -> u64 { a.abs_diff(b) }
pub fn t_cast_u8(a: u64, b: u64) -> u64 { (a as u8) as u64 + ((b as u8) as u64) }
pub fn t_cast_i64(a: u64, b: u64) -> u64 { let d = a as i64 - b as i64; if d < 0 { (-d) as u64 + 1000 } else { d as u64 } }
pub fn t_cast_usize(a: u64, b: u64) -> u64 { (a as usize + b as usize) as u64 }
pub fn t_cast_u32(a: u64, b: u64) -> u64 { ((a * 1_000_000_007) as u32) as u64 + b }
pub fn t_shift(a: u64, b: u64) -> u64 { (a << 3) | (b >> 1) }
pub fn t_bits(a: u64, b: u64) -> u64 { (a & 0xff) ^ (b & 0x0f) | 0x100 }
pub fn t_flag(a: u64, b: u64) -> u64 { if a & 0x4 != 0 { b } else { 0 } }
pub fn t_bool(a: u64, b: u64) -> u64 { ((a < b) as u64) + 2 * ((a == b) as u64) + 4 * ((a >= 3 && b != 2) as u64) + 8 * ((a > 5 || b > 5) as u64) }
pub fn t_not(a: u64, b: u64) -> u64 { if !(a < b) { 1 } else { 0 } }
pub fn t_if_chain(a: u64, b: u64) -> u64 { if a < 2 { 10 } else if a < 4 { if b % 2 == 0 { 20 } else { 21 } } else { 30 + b } }
pub fn t_match_int(a: u64, b: u64) -> u64 { match a { 0 => b, 1 | 2 => b + 1, 3..=5 => b * 2, _ => 77 } }
pub fn t_tuple(a: u64, b: u64) -> u64 { let (x, y) = if a > b { (a, b) } else { (b, a) }; x * 10 + y }

fn classify(a: u64, b: u64) -> Kind { if a < 3 { Kind::Small } else if a < 6 { Kind::Medium(b) } else { Kind::Large { lo: b, hi: a } } }
pub fn t_enum(a: u64, b: u64) -> u64 { match classify(a, b) { Kind::Small => 1, Kind::Medium(m) => 100 + m, Kind::Large { lo, hi } => 1000 + hi - lo.min(hi) } }
pub fn t_enum_eq(a: u64, b: u64) -> u64 { if classify(a, b) == classify(b, a) { 1 } else { 0 } }
pub fn t_matches(a: u64, b: u64) -> u64 { matches!(classify(a, b), Kind::Medium(m) if m > 2) as u64 }

fn half(a: u64) -> Option<u64> { if a % 2 == 0 { Some(a / 2) } else { None } }
fn third(a: u64) -> Result<u64, u64> { if a % 3 == 0 { Ok(a / 3) } else { Err(a % 3) } }
pub fn t_opt_map(a: u64, b: u64) -> u64 { half(a).map(|x| x + b).unwrap_or(b * 100) }
pub fn t_opt_and_then(a: u64, b: u64) -> u64 { half(a).and_then(half).or(half(b)).unwrap_or(55) }
pub fn t_opt_filter(a: u64, b: u64) -> u64 { half(a).filter(|x| *x > b).map_or(3, |x| x * 2) }
pub fn t_opt_is(a: u64, b: u64) -> u64 { (half(a).is_some() as u64) + 2 * (half(b).is_none() as u64) + 4 * (half(a).is_some_and(|x| x > 1) as u64) }
pub fn t_opt_ok_or(a: u64, b: u64) -> u64 { match half(a).ok_or(b) { Ok(x) => x, Err(e) => e + 500 } }
pub fn t_opt_take(a: u64, b: u64) -> u64 { let mut o = half(a); let t = o.take(); let r = o.replace(b); t.unwrap_or(9) * 10 + r.unwrap_or(7) + o.unwrap() }
pub fn t_if_let(a: u64, b: u64) -> u64 { if let Some(x) = half(a) { if let Some(y) = half(x) { y } else { x + 50 } } else { b } }
pub fn t_res_q(a: u64, b: u64) -> u64 { fn inner(a: u64, b: u64) -> Result<u64, u64> { let x = third(a)?; let y = third(b).map_err(|e| e + 10)?; Ok(x + y) } match inner(a, b) { Ok(v) => v, Err(e) => 900 + e } }
pub fn t_res_comb(a: u64, b: u64) -> u64 { third(a).map(|x| x + 1).and_then(|x| if x > b { Ok(x) } else { Err(0) }).unwrap_or_else(|e| e + 40) }
pub fn t_res_is(a: u64, b: u64) -> u64 { (third(a).is_ok() as u64) + 2 * (third(b).is_err() as u64) + 4 * (third(a).ok().is_some() as u64) + 8 * (third(b).is_ok_and(|x| x >= 1) as u64) }

pub fn t_loop_sum(a: u64, b: u64) -> u64 { let mut s = 0; for i in 0..(a % 6) { s += i * b; } s }
pub fn t_while(a: u64, b: u64) -> u64 { let (mut x, mut n) = (a % 9, 0); while x > 0 { x = x.saturating_sub(cmp::max(b % 4, 1)); n += 1; } n }
pub fn t_loop_break(a: u64, b: u64) -> u64 { let mut i = 0; loop { if i * i >= a % 20 { break i + b; } i += 1; } }
pub fn t_loop_continue(a: u64, b: u64) -> u64 { let mut s = 0; for i in 0..5u64 { if i == b % 5 { continue; } s += i + a % 3; } s }
pub fn t_gcd(a: u64, b: u64) -> u64 { let (mut x, mut y) = (a % 16, b % 16); while y != 0 { let t = x % y; x = y; y = t; } x }

pub fn t_struct(a: u64, b: u64) -> u64 { let mut e = Ext { start: a, end: a + b, shared: b % 2 == 1 }; if e.shared { e.end += 1; } let f = Ext { start: e.end, ..e.clone() }; f.start - e.start + (f.shared as u64) + ((e == f) as u64) * 100 }
pub fn t_closure(a: u64, b: u64) -> u64 { let k = a + 1; let f = |x: u64| x * k + b; f(2) + f(3) }
pub fn t_closure_mut(a: u64, b: u64) -> u64 { let mut acc = a; let mut add = |x: u64| { acc += x; acc }; add(b); add(1) }
pub fn t_ref_mut(a: u64, b: u64) -> u64 { fn bump(x: &mut u64, by: u64) { *x += by; } let mut v = a; bump(&mut v, b); bump(&mut v, 1); v }
pub fn t_array(a: u64, b: u64) -> u64 { let arr = [a, b, a + b, 4]; arr[(a % 4) as usize] + arr[3] }
pub fn t_array_oob(a: u64, b: u64) -> u64 { let arr = [a, b, 3]; arr[(a % 5) as usize] }

pub fn t_vec(a: u64, b: u64) -> u64 { let mut v = Vec::new(); v.push(a); v.push(b); if a > b { v.push(a - b); } v.len() as u64 * 100 + v[v.len() - 1] }
pub fn t_vec_iter(a: u64, b: u64) -> u64 { let v = vec![a, b, a % 3, 7]; let m = v.iter().filter(|x| **x % 2 == 0).map(|x| *x + 1).max().unwrap_or(0); let c = v.iter().filter(|x| **x > 2).count() as u64; m * 10 + c }
pub fn t_vec_any_all(a: u64, b: u64) -> u64 { let v = vec![a, b, 5]; (v.iter().any(|x| *x == 5) as u64) + 2 * (v.iter().all(|x| *x > 1) as u64) + 4 * (v.iter().any(|x| *x > 100) as u64) }
pub fn t_vec_last(a: u64, b: u64) -> u64 { let mut v: Vec<u64> = Vec::new(); if a % 2 == 0 { v.push(a); } if b % 2 == 0 { v.push(b); } match v.last() { Some(x) => *x + v.len() as u64, None => 1 } }
pub fn t_vec_pop(a: u64, b: u64) -> u64 { let mut v = vec![a, b]; let x = v.pop().unwrap_or(0); let y = v.pop().unwrap_or(0); let z = v.pop().unwrap_or(42); x * 100 + y * 10 + z }
pub fn t_vec_min(a: u64, b: u64) -> u64 { let v = vec![a + 2, b + 1, 9]; *v.iter().min().unwrap() + v.iter().filter_map(|x| half(*x)).max().unwrap_or(0) }

pub fn t_merge(a: u64, b: u64) -> u64 {
    // shaped like libfs::merge_extents
    let input = vec![Ext { start: 0, end: a, shared: false }, Ext { start: a + (b % 3), end: a + 10, shared: false }, Ext { start: a + 10, end: a + 12, shared: false }];
    let mut merged: Vec<Ext> = vec![];
    let mut prev: Option<Ext> = None;
    for e in input {
        match prev {
            Some(p) => { if e.start == p.end { prev = Some(Ext { start: p.start, end: e.end, shared: false }); } else { merged.push(p); prev = Some(e); } }
            None => prev = Some(e),
        }
    }
    if let Some(p) = prev { merged.push(p); }
    merged.len() as u64 * 1000 + merged[0].end
}


pub fn t_opt_or_xor(a: u64, b: u64) -> u64 { half(a).xor(half(b)).unwrap_or(70) + half(a).or_else(|| half(b + 1)).unwrap_or(3) }
pub fn t_opt_zip(a: u64, b: u64) -> u64 { match half(a).zip(half(b)) { Some((x, y)) => x * 10 + y, None => 99 } }
pub fn t_opt_map_or_else(a: u64, b: u64) -> u64 { half(a).map_or_else(|| b + 1, |x| x * b) + half(b).and(Some(4)).unwrap_or_default() }
pub fn t_bool_then(a: u64, b: u64) -> u64 { (a > b).then_some(a).unwrap_or(b) + (a % 2 == 0).then(|| b + 1).unwrap_or(0) }
pub fn t_vec_get(a: u64, b: u64) -> u64 { let v = vec![a, b, 8]; v.get((a % 5) as usize).copied().unwrap_or(100) + v[(b % 3) as usize] }
pub fn t_vec_contains(a: u64, b: u64) -> u64 { let v = vec![1, 3, a]; (v.contains(&b) as u64) * 10 + (v.contains(&3) as u64) }
pub fn t_vec_edit(a: u64, b: u64) -> u64 { let mut v = vec![a, b, 5, 6]; v.insert(1, 77); let r = v.remove(3); v.truncate(3); let n = v.len() as u64; v.clear(); r * 1000 + n * 10 + v.len() as u64 }
pub fn t_clamp(a: u64, b: u64) -> u64 { a.clamp(2, 5) + b.clamp(a.min(3), 3) }
pub fn t_next_multiple(a: u64, b: u64) -> u64 { (a % 100).next_multiple_of(b % 7) }
pub fn t_pow2(a: u64, b: u64) -> u64 { (a.is_power_of_two() as u64) + 2 * ((b + 1).is_power_of_two() as u64) }
pub fn t_vec_index_mut(a: u64, b: u64) -> u64 { let mut v = vec![a, b, 1]; v[(a % 3) as usize] += 5; v[0] + 10 * v[1] + 100 * v[2] }
pub fn t_slice_first_last(a: u64, b: u64) -> u64 { let v = vec![a, 2, b]; let s = &v[..]; s.first().copied().unwrap_or(0) * 3 + s.last().copied().unwrap_or(0) + s.len() as u64 }


pub fn t_iter_sum(a: u64, b: u64) -> u64 { let v = vec![a % 10, b % 10, 3]; v.iter().sum::<u64>() + v.iter().copied().filter(|x| *x > 2).count() as u64 * 100 }
pub fn t_iter_rev_enum(a: u64, b: u64) -> u64 { let v = vec![a % 7, b % 7, 2]; let mut s = 0; for (i, x) in v.iter().rev().enumerate() { s += (i as u64 + 1) * *x; } s + v.iter().skip(1).take(1).copied().max().unwrap_or(0) }
pub fn t_iter_mut(a: u64, b: u64) -> u64 { let mut v = vec![a % 5, b % 5]; for x in v.iter_mut() { *x += 1; } if let Some(l) = v.last_mut() { *l *= 3; } v[0] * 100 + v[1] }

pub const TESTS: &[(&str, fn(u64, u64) -> u64)] = &[
    ("t_add", t_add), ("t_sub", t_sub), ("t_mul", t_mul), ("t_div", t_div), ("t_rem", t_rem), ("t_wrapping", t_wrapping),
    ("t_saturating", t_saturating), ("t_checked", t_checked), ("t_checked_add", t_checked_add), ("t_minmax", t_minmax), ("t_ord_min", t_ord_min),
    ("t_div_ceil", t_div_ceil), ("t_abs_diff", t_abs_diff), ("t_cast_u8", t_cast_u8), ("t_cast_i64", t_cast_i64), ("t_cast_usize", t_cast_usize),
    ("t_cast_u32", t_cast_u32), ("t_shift", t_shift), ("t_bits", t_bits), ("t_flag", t_flag), ("t_bool", t_bool), ("t_not", t_not), ("t_if_chain", t_if_chain),
    ("t_match_int", t_match_int), ("t_tuple", t_tuple), ("t_enum", t_enum), ("t_enum_eq", t_enum_eq), ("t_matches", t_matches), ("t_opt_map", t_opt_map),
    ("t_opt_and_then", t_opt_and_then), ("t_opt_filter", t_opt_filter), ("t_opt_is", t_opt_is), ("t_opt_ok_or", t_opt_ok_or), ("t_opt_take", t_opt_take),
    ("t_if_let", t_if_let), ("t_res_q", t_res_q), ("t_res_comb", t_res_comb), ("t_res_is", t_res_is), ("t_loop_sum", t_loop_sum), ("t_while", t_while),
    ("t_loop_break", t_loop_break), ("t_loop_continue", t_loop_continue), ("t_gcd", t_gcd), ("t_struct", t_struct), ("t_closure", t_closure),
    ("t_closure_mut", t_closure_mut), ("t_ref_mut", t_ref_mut), ("t_array", t_array), ("t_array_oob", t_array_oob), ("t_vec", t_vec), ("t_vec_iter", t_vec_iter),
    ("t_vec_any_all", t_vec_any_all), ("t_vec_last", t_vec_last), ("t_vec_pop", t_vec_pop), ("t_vec_min", t_vec_min), ("t_merge", t_merge),
    ("t_opt_or_xor", t_opt_or_xor), ("t_opt_zip", t_opt_zip), ("t_opt_map_or_else", t_opt_map_or_else), ("t_bool_then", t_bool_then), ("t_vec_get", t_vec_get),
    ("t_vec_contains", t_vec_contains), ("t_vec_edit", t_vec_edit), ("t_clamp", t_clamp), ("t_next_multiple", t_next_multiple), ("t_pow2", t_pow2),
    ("t_vec_index_mut", t_vec_index_mut), ("t_iter_sum", t_iter_sum), ("t_iter_rev_enum", t_iter_rev_enum), ("t_iter_mut", t_iter_mut), ("t_slice_first_last", t_slice_first_last),
];
