use std::panic;
fn main() {
    panic::set_hook(Box::new(|_| {}));
    let grid: [u64; 9] = [0, 1, 2, 3, 4, 5, 6, 9, u64::MAX];
    for (name, f) in corpus::TESTS {
        for a in grid { for b in grid {
            match panic::catch_unwind(|| f(a, b)) {
                Ok(v) => println!("{} {} {} = {}", name, a, b, v),
                Err(_) => println!("{} {} {} = panic", name, a, b),
            }
        }}
    }
}
