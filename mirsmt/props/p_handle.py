"""CopyHandle::new + needs_backup: what happens to the destination path, in which order (C03, C09, C01, C04)."""
import z3

from props.common import *
from props.env import install_env, path_id, fs_fact, fs_axioms


def _ino_summaries(eng):
    """identity checks a fix may use: libfs::is_same_file, or ino()/dev() comparisons"""
    def s_same(eng, st, callee, args, dty):
        alias = st.ghost["alias"]
        return [Outcome(ok(BoolV(alias)), events=[Event("identity-check", [], None)]),
                Outcome(err("libfs::Error"), events=[Event("identity-check", [], "err")])]
    eng.add_summary(r"^(libfs::)?is_same_file$", s_same)

    def s_ino(which):
        def h(eng, st, callee, args, dty):
            m = deref_ref(eng, st, args[0])
            side = "to" if ("to" in getattr(m, "name", "") or "dst" in getattr(m, "name", "")) else "from"
            key = (which, side)
            ids = st.ghost.setdefault("ids", {})
            if key not in ids:
                ids[key] = eng.fresh_int(st, "u64", "%s_%s" % (which, side))
                other = ids.get((which, "to" if side == "from" else "from"))
            if ("ino", "from") in ids and ("ino", "to") in ids and ("dev", "from") in ids and ("dev", "to") in ids and "tied" not in st.ghost:
                st.ghost["tied"] = True
                st.pc.append(st.ghost["alias"] == z3.And(ids[("ino", "from")].t == ids[("ino", "to")].t,
                                                           ids[("dev", "from")].t == ids[("dev", "to")].t))
            st.trace.append(Event("identity-check", [which, side], None))
            return Outcome(ids[key])
        return h
    eng.add_summary(r"MetadataExt>::ino$|MetadataExt>::st_ino$", s_ino("ino"))
    eng.add_summary(r"MetadataExt>::dev$|MetadataExt>::st_dev$", s_ino("dev"))

    def s_pmeta(eng, st, callee, args, dty):
        p = path_id(eng, st, args[0])
        nm = getattr(p, "name", "p")
        m = OpaqueV("std::fs::Metadata", "meta_of_" + nm)
        return [Outcome(ok(m), events=[Event("Path::metadata", [p], "ok")]),
                Outcome(err("std::io::Error"), events=[Event("Path::metadata", [p], "err")])]
    eng.add_summary(r"^(std::path::)?Path::(symlink_)?metadata$|^(std::fs::)?(symlink_)?metadata::<", s_pmeta)


def lemma_handle_new(ctx):
    eng = ctx.engine("libxcp", loop_bound=2)
    install_env(ctx, eng)
    _ino_summaries(eng)
    eng.inline += [r"^needs_backup$"]

    def s_has(eng, st, callee, args, dty):
        b = BoolV(z3.Bool("has_backup_%d" % next(eng.fresh_ids)))
        return [Outcome(ok(b), events=[Event("has_backup", [path_id(eng, st, args[0])], b)]),
                Outcome(err("anyhow::Error"), events=[Event("has_backup", [path_id(eng, st, args[0])], "err")])]
    eng.add_summary(r"^has_backup$", s_has)

    def s_gbp(eng, st, callee, args, dty):
        bp = OpaqueV("PathBuf", "backup_path")
        return [Outcome(ok(bp), events=[Event("get_backup_path", [path_id(eng, st, args[0])], "ok")]),
                Outcome(err("anyhow::Error"), events=[Event("get_backup_path", [path_id(eng, st, args[0])], "err")])]
    eng.add_summary(r"^get_backup_path$", s_gbp)
    fn = fn_named(eng.funcs, "CopyHandle::new")
    st = State()
    cfg, cv = mk_config(ctx, eng, st)
    cfg_arc = mk_arc(cfg, "Arc<config::Config>", "cfg_arc", rc=1)
    st.ghost["alias"] = z3.Bool("from_and_to_are_the_same_inode")
    # file-system consistency: a destination that designates the source's inode exists
    from props.env import fs_fact
    ex_to = fs_fact("exists", "to_path")
    st.pc.append(z3.Implies(st.ghost["alias"], ex_to))
    frm = RefV(Cell(OpaqueV("Path", "from_path")))
    to = RefV(Cell(OpaqueV("Path", "to_path")))
    paths = eng.run(fn.name, [frm, to, RefV(Cell(cfg_arc))], st)
    ctx.paths += len(paths)
    mode = cv["backup"]
    saw = set()
    for p in paths:
        names = trace_names(p)
        if p.ghost.get("stat_swallowed"):
            # a stat of the destination failed and exists()/is_dir() answered "no": nothing may be decided on that
            (ctx.passed if (p.status == "return" and is_err(p.ret)) else ctx.fail)(
                "C03/C04/C08/C09: a failed stat of the destination is an error, not 'nothing there' (no overwrite, skipped backup or skipped identity check rests on it)",
                str(names), **({} if (p.status == "return" and is_err(p.ret)) else {"key": "stat-error-taken-for-absent"}))
            continue
        if p.status != "return":
            ctx.fail("CopyHandle::new: path ends in return", "%s %s" % (p.status, p.msg))
            continue
        ev = p.trace
        nm = lambda e: getattr(e.args[0], "name", "?") if e.args else "?"
        opens = [e for e in ev if e.name == "File::open"]
        creates = [e for e in ev if e.name == "File::create"]
        renames = [e for e in ev if e.name == "rename"]
        mutating = [e for e in ev if e.name in ("File::create", "File::open_opts", "rename", "remove_file", "allocate_file")]
        for e in ev:
            if e.name == "File::open_opts" and nm(e) == "to_path" and not is_errev(e):
                ctx.fail("C01: nothing of a previous destination's content survives: the destination is opened with create+truncate",
                         "destination opened with flags %r" % (e.args[1],))
        # C03: the source path is only ever opened read-only, never created/renamed/removed
        for e in ev:
            if e.name in ("File::create", "File::open_opts", "remove_file") and nm(e) == "from_path":
                ctx.fail("C03: the source path is never opened for writing or removed", str(names))
            if e.name == "rename" and "from_path" in [getattr(a, "name", "?") for a in e.args]:
                ctx.fail("C03: the source path is never renamed", str(names))
        if not opens or nm(opens[0]) != "from_path":
            ctx.fail("C03: the source is opened (read-only) first", str(names))
        # C03 (aliases): a destructive call on `to` must be impossible when `to` designates the source inode
        for e in mutating[:1]:
            sat, m = eng.check(p.pc + [p.ghost["alias"]])
            if sat:
                ctx.fail("C03: the destination is never truncated/renamed when it is the source itself (spelling, symlink or hard link alias)",
                         "first mutating call %s(%s) is reachable with from/to being the same inode; trace %s" % (e.name, nm(e), names),
                         key="new:create-before-identity-check")
            else:
                ctx.passed("C03: the destination is never truncated/renamed when it is the source itself (spelling, symlink or hard link alias)")
        errs = [e for e in ev if is_errev(e)]
        if errs:
            (ctx.passed if is_err(p.ret) else ctx.fail)("C04: a failed step makes CopyHandle::new return Err", str(names))
            # C09 kill/fault safety: after a failed rename the destination was not re-created
            if errs[0].name == "rename" and creates:
                ctx.fail("C09: a failed backup rename never leads to re-creating the destination", str(names))
            if errs[0].name == "get_backup_path" and (creates or renames):
                ctx.fail("C09: without a backup name nothing is renamed or re-created", str(names))
            continue
        if not is_ok(p.ret):
            # refusal without a failed call is fine only for aliasing destinations (the fix's refusal path)
            dangling = z3.And(fs_fact("lexists", "to_path"), z3.Not(fs_fact("exists", "to_path")))
            ok_refuse, _ = eng.valid(p.pc + fs_axioms("to_path"), z3.Or(p.ghost["alias"], dangling))
            (ctx.passed if ok_refuse else ctx.fail)("CopyHandle::new: Err without a failed call only to refuse a self-copy (or a dangling link at the destination)", str(names))
            continue
        # ---- success path
        if creates:
            # File::create follows a dangling symbolic link and creates its target -- somewhere else than the destination
            ctx.lemma(eng, "C02/C08: the destination is never created through a dangling symbolic link (the entry exists, its target does not)",
                      p.pc + fs_axioms("to_path"), z3.Not(z3.And(fs_fact("lexists", "to_path"), z3.Not(fs_fact("exists", "to_path")))),
                      key="new:created-through-dangling-link")
        if len(creates) != 1 or nm(creates[0]) != "to_path":
            ctx.fail("C01: the destination path is created/truncated exactly once", str(names))
            continue
        al = [e for e in ev if e.name == "allocate_file"]
        if len(al) != 1 or ev.index(al[0]) < ev.index(creates[0]):
            ctx.fail("C01: the destination is sized after it was created", str(names))
        else:
            h = p.ret.fields[0]
            out = h.fields[ctx.field("CopyHandle", "outfd")] if isinstance(h, AggV) else None
            meta = h.fields[ctx.field("CopyHandle", "metadata")] if isinstance(h, AggV) else None
            if out is None or al[0].args[0] != out.name:
                ctx.fail("C01: the descriptor that is sized is the destination descriptor kept in the handle", str(names))
            elif not isinstance(al[0].args[1], IntV) or meta is None or "len" not in meta.attrs:
                ctx.fail("C01: the destination is sized to the source's length", repr(al[0].args))
            else:
                ctx.lemma(eng, "C01: the destination is sized to the source's length", p.pc, al[0].args[1].t == meta.attrs["len"].t)
            inn = h.fields[ctx.field("CopyHandle", "infd")] if isinstance(h, AggV) else None
            if inn is None or inn.attrs.get("mode") != "open" or getattr(inn.attrs.get("path"), "name", "") != "from_path":
                ctx.fail("C03: the handle's input descriptor is the read-only source", repr(inn))
            if out is not None and getattr(out.attrs.get("path"), "name", "") != "to_path":
                ctx.fail("C01: the handle's output descriptor is the mapped destination", repr(out))
        # C09: backup decision and order
        exists = [e for e in ev if e.name == "Path::exists"]
        hb = [e for e in ev if e.name == "has_backup"]
        is_none = enum_is(eng, p, mode, "Backup", "None")
        is_auto = enum_is(eng, p, mode, "Backup", "Auto")
        is_num = enum_is(eng, p, mode, "Backup", "Numbered")
        if renames:
            saw.add("backup")
            r = renames[0]
            if [getattr(a, "name", "?") for a in r.args] != ["to_path", "backup_path"]:
                ctx.fail("C09: the old destination is renamed to the computed backup name", str([getattr(a, "name", "?") for a in r.args]))
            if ev.index(r) > ev.index(creates[0]):
                ctx.fail("C09: the old file is renamed away before the destination is re-created (kill-safe order)", str(names))
            else:
                ctx.passed("C09: the old file is renamed away before the destination is re-created (kill-safe order)")
            there = fs_fact("exists", "to_path")       # the fact, whichever probe the code used
            cond = z3.Or(z3.And(is_num, there), z3.And(is_auto, there, hb[0].ret.t if hb else z3.BoolVal(False)))
            ctx.lemma(eng, "C09: a backup is made only for numbered, or auto with an existing backup, and an existing destination", p.pc + fs_axioms("to_path"), cond)
        else:
            saw.add("nobackup")
            # "an existing destination file": the path resolves to a regular file (the one File::create would truncate),
            # whichever probe the code used to find out
            dest_file = fs_fact("is_file", "to_path")
            must = z3.Or(z3.And(is_num, dest_file), z3.And(is_auto, dest_file, hb[0].ret.t if hb else z3.BoolVal(True)))
            ctx.lemma(eng, "C09: numbered mode (and auto with an existing backup) never overwrites an existing file without a backup", p.pc + fs_axioms("to_path"), z3.Not(must))
    for k in ("backup", "nobackup"):
        (ctx.passed if k in saw else ctx.fail)("witness: path with " + k, "")
    ctx.bounds = "loop-free; all backup modes x destination exists/absent x has_backup x alias relation x one failed call"
