"""libxcp/src/backup.rs over symbolic file names (z3 strings): which siblings count as backups of a name,
the next backup number, the backup path (C09)."""
import re

import z3

from props.common import *
from props.env import install_env

U64_MAX = (1 << 64) - 1


L_MAX = 14      # modelled name length bound (characters)


class View:
    """bounded symbolic string: characters chars[start .. start+len) of a fixed array of z3 Ints"""

    def __init__(self, chars, start, length):
        self.chars, self.start, self.len = chars, start, length

    def at(self, j):
        """character at view index j (z3 Int term); 0 outside"""
        r = z3.IntVal(0)
        for i in range(len(self.chars) - 1, -1, -1):
            r = z3.If(self.start + j == i, self.chars[i], r)
        return r

    @staticmethod
    def const(text):
        return View([z3.IntVal(ord(ch)) for ch in text], z3.IntVal(0), z3.IntVal(len(text)))

    @staticmethod
    def fresh(name, maxlen, st, minlen=0):
        chars = [z3.Int("%s_c%d" % (name, i)) for i in range(maxlen)]
        ln = z3.Int("%s_len" % name)
        st.pc += [ln >= minlen, ln <= maxlen]
        for c in chars:
            st.pc.append(z3.And(c >= 1, c <= 0x10FFFF, c != 47))      # any character but NUL and '/'
        return View(chars, z3.IntVal(0), ln)

    def sub(self, off, length):
        return View(self.chars, self.start + off, length)

    def n(self):
        return len(self.chars)


def v_prefix(b, c):
    """b is a prefix of c"""
    conds = [b.len <= c.len]
    for j in range(b.n()):
        conds.append(z3.Implies(j < b.len, b.at(j) == c.at(j)))
    return z3.And(*conds)


def v_eq(a, b):
    conds = [a.len == b.len]
    for j in range(max(a.n(), b.n())):
        conds.append(z3.Implies(j < a.len, a.at(j) == b.at(j)))
    return z3.And(*conds)


def v_last_index(c, ch):
    r = z3.IntVal(-1)
    for j in range(c.n()):
        r = z3.If(z3.And(j < c.len, c.at(j) == ch), z3.IntVal(j), r)
    return r


def is_ascii_digit(x):
    return z3.And(x >= 48, x <= 57)


def is_regex_digit(x):
    # the regex crate's \d is Unicode-aware: one non-ASCII block stands for the digits parse::<u64> rejects
    return z3.Or(is_ascii_digit(x), z3.And(x >= 0x660, x <= 0x669))


def v_all(view, pred, lo, hi):
    """pred holds for every character with view index in [lo, hi)"""
    return z3.And(*[z3.Implies(z3.And(j >= lo, j < hi), pred(view.at(j))) for j in range(view.n())])


def v_decimal(view):
    """value of the ASCII-decimal view (meaningful when all characters are digits)"""
    v = z3.IntVal(0)
    for j in range(view.n()):
        v = z3.If(j < view.len, v * 10 + (view.at(j) - 48), v)
    return v


class SStrV(OpaqueV):
    """symbolic string value"""

    def __init__(self, view, utf8=None):
        OpaqueV.__init__(self, "str", None, {"t": view, "utf8": utf8})


def sterm(eng, st, v):
    v = deref_ref(eng, st, v)
    while isinstance(v, RefV):
        v = deref_ref(eng, st, v)
    if isinstance(v, StrV):
        return View.const(v.s)
    if isinstance(v, OpaqueV) and v.ty == "bytes" and "text" in v.attrs:
        return View.const(eval(v.attrs["text"]).decode("latin-1"))
    if isinstance(v, OpaqueV) and "t" in v.attrs:
        return v.attrs["t"]
    raise EngineAbort("not a string value: %r" % (v,))


def parse_pattern(pat):
    """the pattern the code passes to Regex::new, restricted to  ^ literal* ( class+ ) literal* $  with class in {\\d}
    -> (prefix literal, class predicate, suffix literal); anything else aborts (never guess)."""
    m = re.match(r"^\^((?:\\.|[^\\()+*?\[\]|.$^])*)\((\\d)\+\)((?:\\.|[^\\()+*?\[\]|.$^])*)\$$", pat)
    if not m:
        raise EngineAbort("backup pattern outside the supported subset: %r" % pat)
    lit = lambda x: re.sub(r"\\(.)", r"\1", x)
    return lit(m.group(1)), is_regex_digit, lit(m.group(3))


def install_backup_env(ctx, eng):
    install_env(ctx, eng)
    S = eng.add_summary
    front = lambda rx, h: eng.add_summary(rx, h, front=True)
    some = lambda v: AggV("Option", 1, [v], "Some")
    none = lambda: AggV("Option", 0, [], "None")
    S(r"^(std::path::)?Path::file_name$", lambda e, st, c, a, d: Outcome(some(RefV(Cell(deref_ref(e, st, a[0]).attrs["name"])))))

    def s_to_str(eng, st, callee, args, dty):
        os_ = deref_ref(eng, st, args[0])
        u = os_.attrs.get("utf8")
        if u is None:
            return Outcome(some(RefV(Cell(os_))))
        return [Outcome(some(RefV(Cell(os_))), [u]), Outcome(none(), [z3.Not(u)], events=[Event("non-utf8", [], None)])]
    S(r"^(std::ffi::)?OsStr::to_str$", s_to_str)
    S(r"^(std::ffi::)?OsStr::to_string_lossy$", lambda e, st, c, a, d: Outcome(AggV("Cow", 0, [RefV(Cell(deref_ref(e, st, a[0])))], "Borrowed")))
    front(r"^<Cow<'_, str> as Deref>::deref$", lambda e, st, c, a, d: Outcome(deref_ref(e, st, a[0]).fields[0]))
    front(r"^<Cow<'_, str> as ToString>::to_string$", lambda e, st, c, a, d: Outcome(deref_ref(e, st, deref_ref(e, st, a[0]).fields[0])))
    S(r"^core::str::<impl str>::starts_with::<&str>$", lambda e, st, c, a, d: Outcome(BoolV(v_prefix(sterm(e, st, a[1]), sterm(e, st, a[0])))))

    def s_strip_prefix(eng, st, callee, args, dty):
        sv = sterm(eng, st, args[0])
        pat = args[1]
        if isinstance(pat, IntV):          # char pattern
            cond = z3.And(sv.len >= 1, sv.at(0) == pat.t)
            rest = sv.sub(1, sv.len - 1)
        else:
            pv = sterm(eng, st, pat)
            cond = v_prefix(pv, sv)
            rest = sv.sub(pv.len, sv.len - pv.len)
        src = deref_ref(eng, st, args[0])
        while isinstance(src, RefV):
            src = deref_ref(eng, st, src)
        r = SStrV(rest, src.attrs.get("utf8") if isinstance(src, OpaqueV) else None)
        return [Outcome(some(RefV(Cell(r))), [cond]), Outcome(none(), [z3.Not(cond)])]
    S(r"^core::str::<impl str>::strip_prefix::<|^core::slice::<impl \[u8\]>::strip_prefix::<", s_strip_prefix)
    S(r"^<(std::ffi::)?OsStr as (std::os::unix::ffi::)?OsStrExt>::as_bytes$|^(std::ffi::)?OsStr::(to_os_string|as_encoded_bytes)$|^core::str::<impl str>::as_bytes$",
      lambda e, st, c, a, d: Outcome(a[0] if "to_os_string" not in c else deref_ref(e, st, a[0])))

    def s_from_utf8(eng, st, callee, args, dty):
        src = deref_ref(eng, st, args[0])
        while isinstance(src, RefV):
            src = deref_ref(eng, st, src)
        v = src.attrs["t"]
        u = src.attrs.get("utf8")
        ascii_only = v_all(v, lambda x: x < 128, 0, v.len)
        valid = ascii_only if u is None else z3.Or(u, ascii_only)
        if u is None:
            return Outcome(ok(RefV(Cell(SStrV(v)))))
        return [Outcome(ok(RefV(Cell(SStrV(v, u)))), [valid]),
                Outcome(AggV("Result", 1, [OpaqueV("Utf8Error")], "Err"), [z3.Not(valid)], events=[Event("non-utf8", [], None)])]
    S(r"^(core::str::|std::str::)?from_utf8$", s_from_utf8)

    def s_strip_suffix(eng, st, callee, args, dty):
        sv = sterm(eng, st, args[0])
        pat = args[1]
        if isinstance(pat, IntV):
            cond = z3.And(sv.len >= 1, sv.at(sv.len - 1) == pat.t)
            rest = sv.sub(0, sv.len - 1)
        else:
            pv = sterm(eng, st, pat)
            tail = sv.sub(sv.len - pv.len, pv.len)
            cond = z3.And(pv.len <= sv.len, v_eq(pv, tail))
            rest = sv.sub(0, sv.len - pv.len)
        return [Outcome(some(RefV(Cell(SStrV(rest)))), [cond]), Outcome(none(), [z3.Not(cond)])]
    S(r"^core::str::<impl str>::strip_suffix::<", s_strip_suffix)
    S(r"^core::str::<impl str>::ends_with::<&str>$", lambda e, st, c, a, d: Outcome(BoolV(z3.And(sterm(e, st, a[1]).len <= sterm(e, st, a[0]).len,
        v_eq(sterm(e, st, a[1]), sterm(e, st, a[0]).sub(sterm(e, st, a[0]).len - sterm(e, st, a[1]).len, sterm(e, st, a[1]).len))))))
    S(r"^core::str::<impl str>::len$", lambda e, st, c, a, d: Outcome(IntV(sterm(e, st, a[0]).len, "usize")))
    S(r"^<str as PartialEq>::eq$|^<&str as PartialEq>::eq$", lambda e, st, c, a, d: Outcome(BoolV(v_eq(sterm(e, st, a[0]), sterm(e, st, a[1])))))

    def s_extension(eng, st, callee, args, dty):
        p = deref_ref(eng, st, args[0])
        nm = p.attrs["name"]
        c = nm.attrs["t"]
        idx = v_last_index(c, 46)
        ext = SStrV(c.sub(idx + 1, c.len - idx - 1), nm.attrs.get("utf8"))
        dotdot = z3.And(c.len == 2, c.at(0) == 46, c.at(1) == 46)
        has = z3.And(idx >= 1, z3.Not(dotdot))
        return [Outcome(some(RefV(Cell(ext))), [has]), Outcome(none(), [z3.Not(has)])]
    S(r"^(std::path::)?Path::extension$", s_extension)

    def s_get_regex(eng, st, callee, args, dty):
        cv = eng.funcs.get("constval:BAK_PATTTERN")
        if not cv:
            raise EngineAbort("pattern constant BAK_PATTTERN not found in the MIR dump")
        pat = bytes(cv[0].strip()[1:-1], "utf-8").decode("unicode_escape")
        return Outcome(RefV(Cell(OpaqueV("Regex", None, {"pattern": pat}))))
    S(r"^get_regex$", s_get_regex)

    def s_captures(eng, st, callee, args, dty):
        rx = deref_ref(eng, st, args[0])
        s = sterm(eng, st, args[1])
        pre, cls, post = parse_pattern(rx.attrs["pattern"])
        conds = [s.len >= len(pre) + len(post) + 1]
        for i, ch in enumerate(pre):
            conds.append(s.at(i) == ord(ch))
        for i, ch in enumerate(post):
            conds.append(s.at(s.len - len(post) + i) == ord(ch))
        conds.append(v_all(s, cls, len(pre), s.len - len(post)))
        matches = z3.And(*conds)
        g = s.sub(len(pre), s.len - len(pre) - len(post))
        caps = OpaqueV("Captures", None, {"groups": [SStrV(s), SStrV(g)]})
        return [Outcome(some(caps), [matches]), Outcome(none(), [z3.Not(matches)])]
    S(r"^regex::Regex::captures$", s_captures)

    def s_get(eng, st, callee, args, dty):
        caps = deref_ref(eng, st, args[0])
        i = eng.concrete_int(st, args[1])
        if i is None or i >= len(caps.attrs["groups"]):
            return Outcome(none())
        return Outcome(some(OpaqueV("Match", None, {"s": caps.attrs["groups"][i]})))
    S(r"^regex::Captures::<'_>::get$", s_get)
    S(r"^regex::Match::<'_>::as_str$", lambda e, st, c, a, d: Outcome(RefV(Cell(deref_ref(e, st, a[0]).attrs["s"]))))

    def s_parse(eng, st, callee, args, dty):
        s = sterm(eng, st, args[0])
        plus = z3.And(s.len >= 1, s.at(0) == 43)
        digits = View(s.chars, z3.If(plus, s.start + 1, s.start), z3.If(plus, s.len - 1, s.len))
        okform = z3.And(digits.len >= 1, v_all(digits, is_ascii_digit, 0, digits.len))
        val = v_decimal(digits)
        n = eng.fresh_int(st, "u64", "parsed")
        perr = lambda kind: AggV("Result", 1, [OpaqueV("ParseIntError", None, {"kind": kind})], "Err")
        return [Outcome(ok(n), [okform, val <= U64_MAX, n.t == val]),
                Outcome(perr("PosOverflow"), [okform, val > U64_MAX]),
                Outcome(perr("InvalidDigit"), [z3.Not(okform)])]
    S(r"^core::str::<impl str>::parse::<u64>$", s_parse)
    S(r"^(std::num::|core::num::)?ParseIntError::kind$", lambda e, st, c, a, d: Outcome(RefV(Cell(OpaqueV("IntErrorKind", None, {"kind": deref_ref(e, st, a[0]).attrs["kind"]})))))

    def s_iek_eq(eng, st, callee, args, dty):
        def kind(v):
            v = deref_ref(eng, st, v)
            v = deref_ref(eng, st, v)
            if isinstance(v, OpaqueV) and "kind" in v.attrs:
                return v.attrs["kind"]
            if isinstance(v, AggV):
                return v.vname if isinstance(v.vname, str) else str(v.variant)
            return re.sub(r".*::", "", getattr(v, "name", "") or repr(v))
        return Outcome(BoolV(kind(args[0]) == kind(args[1])))
    S(r"^<(std::num::|core::num::)?IntErrorKind as PartialEq>::eq$", s_iek_eq)
    S(r"^Result::<.*>::ok$", lambda e, st, c, a, d: Outcome(some(a[0].fields[0]) if a[0].vname == "Ok" else none()))
    S(r"^Option::<u64>::unwrap_or$", lambda e, st, c, a, d: Outcome(a[0].fields[0] if a[0].vname == "Some" else a[1]))


def _spec(b, c):
    """reference: c is a numbered backup of b  <=>  c == b ++ ".~" ++ digits ++ "~" (a number beyond u64 saturates)"""
    rest = c.sub(b.len, c.len - b.len)
    digits = rest.sub(2, rest.len - 3)
    shape = z3.And(v_prefix(b, c), rest.len >= 4, rest.at(0) == 46, rest.at(1) == 126, rest.at(rest.len - 1) == 126,
                   v_all(digits, is_ascii_digit, 0, digits.len))
    num = v_decimal(digits)
    # a decimal number too large for u64 is still a backup (its number counts as u64::MAX: larger than any that can be handed out)
    return shape, z3.If(num <= U64_MAX, num, U64_MAX)


def lemma_is_num_backup(ctx):
    eng = ctx.engine("libxcp", loop_bound=2)
    install_backup_env(ctx, eng)
    fn = fn_named(eng.funcs, "is_num_backup")
    st = State()
    nb, nc = (5, 12) if ctx.tier == "quick" else (6, L_MAX + 12)
    b = View.fresh("base", nb, st, 1)
    c = View.fresh("cand", nc, st, 0)
    utf8 = z3.Bool("candidate_is_utf8")
    cand = OpaqueV("Path", "candidate", {"name": SStrV(c, utf8)})
    paths = eng.run(fn.name, [RefV(Cell(SStrV(b))), RefV(Cell(cand))], st)
    ctx.paths += len(paths)
    spec, num = _spec(b, c)
    some_n = 0
    for p in paths:
        if p.status != "return":
            ctx.fail("is_num_backup: path ends in return", "%s %s" % (p.status, p.msg))
            continue
        r = p.ret
        if r.vname == "Some":
            some_n += 1
            ctx.lemma(eng, "C09: only names of the form <base>.~N~ are counted as backups of <base>", p.pc, spec,
                      key="backup:prefix-match", info={"note": "e.g. base 'a', sibling 'a.txt.~5~'"})
            ctx.lemma(eng, "C09: the recognised backup number is the decimal value of N (saturating at u64::MAX)", p.pc, z3.Implies(spec, r.fields[0].t == num))
        else:
            nonutf = any(e.name == "non-utf8" for e in p.trace)
            whole_name_rejected = nonutf and not eng.valid(p.pc, z3.Not(spec))[0]
            if whole_name_rejected:
                ctx.fail("C09: backups of names with non-UTF-8 bytes are recognised too",
                         "OsStr::to_str() returns None for every non-UTF-8 sibling, so its existing .~N~ backups are invisible: "
                         "the next backup reuses .~1~ and replaces the old version",
                         key="backup:non-utf8-unrecognised")
            else:
                ctx.lemma(eng, "C09: every sibling named <base>.~N~ (any decimal N, also beyond u64) is recognised", p.pc, z3.Not(spec))
    (ctx.passed if some_n else ctx.fail)("witness: some name is recognised", "")
    validate_backup_vectors(ctx)
    ctx.bounds = ("base names of 1..%d and sibling names of 0..%d characters (bounded symbolic strings: one integer per character), any characters but '/' and NUL; "
                  "\\d modelled as ASCII digits plus one non-ASCII digit block" % (nb, nc))


def _mk_entries(eng, st, n, b):
    ents = []
    for i in range(n):
        c = View.fresh("entry%d" % i, 10, st, 1)
        ents.append(OpaqueV("DirEntry", "entry%d" % i, {"name": SStrV(c, None), "t": c}))
    return ents


def _install_readdir(ctx, eng, entries, failing_entry=False):
    S = eng.add_summary

    def s_filename(eng, st, callee, args, dty):
        p = deref_ref(eng, st, args[0])
        return [Outcome(ok(p.attrs["name"]), events=[Event("filename", [], "ok")]),
                Outcome(err("anyhow::Error"), events=[Event("filename", [], "err")])]
    S(r"^filename$", s_filename)
    bad = [AggV("Result", 1, [OpaqueV("std::io::Error", "readdir_entry_error")], "Err")] if failing_entry else []
    S(r"^ls_file_dir$", lambda e, st, c, a, d: [Outcome(ok(OpaqueV("ReadDir", None, {"items": [AggV("Result", 0, [x], "Ok") for x in entries] + list(bad)})), events=[Event("read_dir", [], "ok")]),
                                                 Outcome(err("anyhow::Error"), events=[Event("read_dir", [], "err")])])
    front = lambda rx, h: eng.add_summary(rx, h, front=True)
    front(r"^<(std::path::)?PathBuf as Deref>::deref$", lambda e, st, c, a, d: Outcome(a[0]))
    front(r"^<(std::string::)?String as Deref>::deref$", lambda e, st, c, a, d: Outcome(a[0]))
    S(r"^(std::fs::)?DirEntry::path$", lambda e, st, c, a, d: Outcome(OpaqueV("PathBuf", "path_of_" + deref_ref(e, st, a[0]).name, {"name": deref_ref(e, st, a[0]).attrs["name"]})))
    S(r"^(std::fs::)?DirEntry::file_name$", lambda e, st, c, a, d: Outcome(deref_ref(e, st, a[0]).attrs["name"]))
    # paths of one directory are ordered by their file names (bytewise)
    eng.order_key = lambda e, st, x, y: v_lex_le(deref_ref(e, st, x).attrs["name"].attrs["t"], deref_ref(e, st, y).attrs["name"].attrs["t"])


def v_lex_le(a, b):
    """a <= b in lexicographic (code point) order"""
    n = max(a.n(), b.n())
    cases = [v_eq(a, b)]
    for k in range(n):
        same_before = z3.And(*[z3.And(j < a.len, j < b.len, a.at(j) == b.at(j)) for j in range(k)]) if k else z3.BoolVal(True)
        cases.append(z3.And(same_before, a.len == k, b.len > k))                       # a is a proper prefix of b
        cases.append(z3.And(same_before, k < a.len, k < b.len, a.at(k) < b.at(k)))      # first difference decides
    return z3.Or(*cases)


def lemma_next_backup_num(ctx):
    n_ent = 2 if ctx.tier == "quick" else 3
    eng = ctx.engine("libxcp", loop_bound=n_ent + 2, timeout_s=1200)
    install_backup_env(ctx, eng)
    st = State()
    b = View.fresh("base", 4, st, 1)
    entries = _mk_entries(eng, st, n_ent, b)
    _install_readdir(ctx, eng, entries)
    eng.inline += [r"^is_num_backup$"]
    fn = fn_named(eng.funcs, "next_backup_num")
    f = OpaqueV("Path", "file", {"name": SStrV(b)})
    paths = eng.run(fn.name, [RefV(Cell(f))], st)
    ctx.paths += len(paths)
    okn = 0
    for p in paths:
        if p.status == "panic":
            # `current + 1` overflows only when a backup numbered u64::MAX exists: refusing (panic => non-zero exit) is safe
            ctx.lemma(eng, "C09: next_backup_num refuses (error or panic) only when a backup numbered u64::MAX (or beyond) already exists", p.pc,
                      z3.Or(*[v.t == U64_MAX for v in p.ghost.get("recognised", [])]) if p.ghost.get("recognised") else z3.BoolVal(False))
            continue
        if p.status != "return":
            ctx.fail("next_backup_num: path ends in return", "%s %s" % (p.status, p.msg))
            continue
        if any(is_errev(e) for e in p.trace):
            (ctx.passed if is_err(p.ret) else ctx.fail)("C04/C09: a directory that cannot be listed makes the backup (and the copy) fail", str(trace_names(p)))
            continue
        if is_err(p.ret):
            ctx.lemma(eng, "C09: next_backup_num refuses (error or panic) only when a backup numbered u64::MAX (or beyond) already exists", p.pc,
                      z3.Or(*[v.t == U64_MAX for v in p.ghost.get("recognised", [])]) if p.ghost.get("recognised") else z3.BoolVal(False))
            continue
        okn += 1
        N = p.ret.fields[0].t
        for ent in entries:
            spec, num = _spec(b, ent.attrs["t"])
            ctx.lemma(eng, "C09: the new backup number is greater than every backup number already present for that name", p.pc,
                      z3.Implies(spec, N > num))
            ctx.lemma(eng, "C09: the new backup name is not the name of an existing sibling (no existing backup is replaced)", p.pc,
                      z3.Not(z3.And(spec, num == N)))
        ctx.lemma(eng, "C09: backup numbers start at 1", p.pc, N >= 1)
    (ctx.passed if okn else ctx.fail)("witness: next_backup_num success path", "")
    # ---- the arithmetic on its own, over the whole u64 range (names of <= 10 characters cannot spell numbers near u64::MAX):
    # is_num_backup is replaced by "an arbitrary recognised number or none" per sibling
    eng2 = ctx.engine("libxcp", loop_bound=n_ent + 4, timeout_s=600)
    install_backup_env(ctx, eng2)
    st2 = State()
    b2 = View.fresh("base", 4, st2, 1)
    entries2 = _mk_entries(eng2, st2, n_ent + 1, b2)
    _install_readdir(ctx, eng2, entries2)
    seen = []

    def s_inb(eng, st, callee, args, dty):
        n = eng.fresh_int(st, "u64", "backup_no")
        return [Outcome(AggV("Option", 1, [n], "Some"), effect=lambda e, s2, a2: s2.ghost.setdefault("numbers", []).append(n)),
                Outcome(AggV("Option", 0, [], "None"))]
    eng2.add_summary(r"^is_num_backup::<", s_inb, front=True)
    eng2.add_summary(r"^is_num_backup$", s_inb, front=True)
    paths2 = eng2.run(fn_named(eng2.funcs, "next_backup_num").name, [RefV(Cell(OpaqueV("Path", "file", {"name": SStrV(b2)})))], st2)
    ctx.paths += len(paths2)
    big = 0
    for p in paths2:
        nums = p.ghost.get("numbers", [])
        if p.status == "panic":
            ctx.lemma(eng2, "C09: next_backup_num refuses (error or panic) only when a backup numbered u64::MAX (or beyond) already exists", p.pc,
                      z3.Or(*[v.t == U64_MAX for v in nums]) if nums else z3.BoolVal(False))
            continue
        if p.status == "return" and is_err(p.ret) and not any(is_errev(e) for e in p.trace):
            ctx.lemma(eng2, "C09: next_backup_num refuses (error or panic) only when a backup numbered u64::MAX (or beyond) already exists", p.pc,
                      z3.Or(*[v.t == U64_MAX for v in nums]) if nums else z3.BoolVal(False))
            continue
        if p.status != "return" or any(is_errev(e) for e in p.trace) or not is_ok(p.ret):
            continue
        N = p.ret.fields[0].t
        for v in nums:
            big += 1
            ctx.lemma(eng2, "C09: the new backup number is greater than every recognised backup number, over the whole u64 range (never a number already taken)",
                      p.pc, N > v.t)
        ctx.lemma(eng2, "C09: backup numbers start at 1", p.pc, N >= 1)
    (ctx.passed if big else ctx.fail)("witness: next_backup_num with recognised siblings", "")
    _scan_error_lemma(ctx, "next_backup_num")
    ctx.bounds = ("directories of %d arbitrary sibling names (<= 10 characters) besides the file, plus %d siblings with arbitrary recognised numbers in 0..=u64::MAX; "
                  "UTF-8 names (non-UTF-8 siblings: separate lemma)" % (n_ent, n_ent + 1))


def lemma_has_backup(ctx):
    n_ent = 2
    eng = ctx.engine("libxcp", loop_bound=3, timeout_s=900)
    install_backup_env(ctx, eng)
    st = State()
    b = View.fresh("base", 4, st, 1)
    entries = _mk_entries(eng, st, n_ent, b)
    _install_readdir(ctx, eng, entries)
    eng.inline += [r"^is_num_backup$"]
    fn = fn_named(eng.funcs, "has_backup")
    f = OpaqueV("Path", "file", {"name": SStrV(b)})
    paths = eng.run(fn.name, [RefV(Cell(f))], st)
    ctx.paths += len(paths)
    for p in paths:
        if p.status != "return":
            ctx.fail("has_backup: path ends in return", "%s %s" % (p.status, p.msg))
            continue
        if any(is_errev(e) for e in p.trace):
            (ctx.passed if is_err(p.ret) else ctx.fail)("C04/C09: a directory that cannot be listed makes has_backup fail", str(trace_names(p)))
            continue
        specs = [_spec(b, e.attrs["t"])[0] for e in entries]
        ctx.lemma(eng, "C09: auto mode sees a backup whenever a sibling <name>.~N~ exists", p.pc, z3.Implies(z3.Or(*specs), p.ret.fields[0].t))
        ctx.lemma(eng, "C09: auto mode makes a backup exactly when a backup of that name already exists", p.pc, z3.Implies(p.ret.fields[0].t, z3.Or(*specs)),
                  key="backup:prefix-match", info={"note": "unrelated 'a.txt.~5~' counts as a backup of 'a'"})
    _scan_error_lemma(ctx, "has_backup")
    ctx.bounds = "directories of %d arbitrary sibling names" % n_ent


def _scan_error_lemma(ctx, fname):
    """the sibling scan with one unreadable directory entry (readdir failing midway): the scan must fail -- answering
    'no backup' / 'no number taken' instead lets rename() replace an existing backup"""
    eng = ctx.engine("libxcp", loop_bound=4, timeout_s=600)
    install_backup_env(ctx, eng)
    st = State()
    b = View.fresh("base", 4, st, 1)
    entries = _mk_entries(eng, st, 1, b)
    _install_readdir(ctx, eng, entries, failing_entry=True)
    num = lambda e, s2, c, a, d: [Outcome(AggV("Option", 1, [e.fresh_int(s2, "u64", "backup_no")], "Some")), Outcome(AggV("Option", 0, [], "None"))]
    eng.add_summary(r"^is_num_backup::<", num, front=True)
    eng.add_summary(r"^is_num_backup$", num, front=True)
    paths = eng.run(fn_named(eng.funcs, fname).name, [RefV(Cell(OpaqueV("Path", "file", {"name": SStrV(b)})))], st)
    ctx.paths += len(paths)
    for p in paths:
        if p.status == "panic" or any(is_errev(e) for e in p.trace):
            continue
        if p.status != "return":
            ctx.fail("%s: path ends in return" % fname, "%s %s" % (p.status, p.msg))
            continue
        ok_early = fname == "has_backup" and is_ok(p.ret) and z3.is_true(z3.simplify(p.ret.fields[0].t))
        if is_err(p.ret) or ok_early:
            ctx.passed("C04/C09: a directory entry that cannot be read makes the sibling scan fail (it is not taken for 'no backup there')")
        else:
            ctx.fail("C04/C09: a directory entry that cannot be read makes the sibling scan fail (it is not taken for 'no backup there')",
                     "%s returned %r with an unreadable entry in the listing" % (fname, p.ret), key="backup:readdir-error-swallowed")


def lemma_ls_file_dir(ctx):
    """ls_file_dir (executed, not summarised): the directory scanned for <name>.~N~ siblings is the one get_backup_path and the
    rename in CopyHandle::new put the backup into -- the *lexical* parent of the path as given (the working directory for a bare
    name) -- and not some other directory (e.g. the parent of the link's target)."""
    eng = ctx.engine("libxcp", loop_bound=2)
    install_backup_env(ctx, eng)
    S = eng.add_summary
    front = lambda rx, h: eng.add_summary(rx, h, front=True)
    some = lambda v: AggV("Option", 1, [v], "Some")
    none = lambda: AggV("Option", 0, [], "None")
    empty = z3.Bool("parent_is_empty")
    cwd = OpaqueV("PathBuf", "cwd", {"which": "cwd"})
    parent = OpaqueV("Path", "parent", {"which": "parent-of-file", "empty": empty})

    def which(eng, st, v):
        v = deref_ref(eng, st, v)
        while isinstance(v, RefV):
            v = deref_ref(eng, st, v)
        return v
    front(r"^(std::env::)?current_dir$", lambda e, st, c, a, d: [Outcome(ok(cwd), events=[Event("current_dir", [], "ok")]),
                                                                  Outcome(err("std::io::Error"), events=[Event("current_dir", [], "err")])])

    def s_parent(eng, st, callee, args, dty):
        w = which(eng, st, args[0])
        if w.attrs.get("which") != "file":
            return Outcome(some(RefV(Cell(OpaqueV("Path", "parent-of-other", {"which": "parent-of-" + str(w.attrs.get("which")), "empty": z3.BoolVal(False)})))),
                           events=[Event("parent", [w.attrs.get("which")], None)])
        return [Outcome(some(RefV(Cell(parent))), events=[Event("parent", ["file"], "some")]),
                Outcome(none(), events=[Event("parent", ["file"], "none")])]
    front(r"^(std::path::)?Path::parent$", s_parent)
    front(r"^(std::path::)?Path::as_os_str$|^<(std::path::)?PathBuf as Deref>::deref$|^<(std::path::)?PathBuf as AsRef<(std::path::)?Path>>::as_ref$|^(std::path::)?PathBuf::as_path$",
          lambda e, st, c, a, d: Outcome(RefV(Cell(which(e, st, a[0])))))
    front(r"^(std::ffi::)?OsStr::is_empty$", lambda e, st, c, a, d: Outcome(BoolV(which(e, st, a[0]).attrs.get("empty", z3.BoolVal(False)))))

    def s_resolve(eng, st, callee, args, dty):
        w = which(eng, st, args[0])
        r = OpaqueV("PathBuf", "resolved", {"which": "resolved(%s)" % w.attrs.get("which")})
        return [Outcome(ok(r), events=[Event("resolve", [w.attrs.get("which")], "ok")]), Outcome(err("std::io::Error"), events=[Event("resolve", [], "err")])]
    front(r"^(std::path::)?Path::canonicalize$|^(std::fs::)?canonicalize::<|^(std::fs::)?read_link::<|^(std::path::)?Path::read_link$|^(std::path::)?absolute::<", s_resolve)

    def s_read_dir(eng, st, callee, args, dty):
        w = which(eng, st, args[0])
        return [Outcome(ok(OpaqueV("ReadDir", None, {"items": []})), events=[Event("read_dir", [w.attrs.get("which")], "ok")]),
                Outcome(err("std::io::Error"), events=[Event("read_dir", [w.attrs.get("which")], "err")])]
    front(r"^(std::path::)?Path::read_dir$|^(std::fs::)?read_dir::<", s_read_dir)
    fn = fn_named(eng.funcs, "ls_file_dir")
    f = OpaqueV("Path", "file", {"which": "file", "name": SStrV(z3.String("file_name"))})
    paths = eng.run(fn.name, [RefV(Cell(f))], State())
    ctx.paths += len(paths)
    seen = set()
    for p in paths:
        if p.status != "return":
            ctx.fail("ls_file_dir: path ends in return", "%s %s" % (p.status, p.msg))
            continue
        rd = [e for e in p.trace if e.name == "read_dir"]
        if any(is_errev(e) for e in p.trace):
            (ctx.passed if is_err(p.ret) else ctx.fail)("C04/C09: a failing current_dir/read_dir makes the backup scan fail", str(trace_names(p)))
            continue
        if not is_ok(p.ret) or len(rd) != 1:
            ctx.fail("C09: the backup scan lists exactly one directory", str(trace_names(p)))
            continue
        par = [e for e in p.trace if e.name == "parent" and e.args[0] == "file"]
        listed = rd[0].args[0]
        has_parent = bool(par) and par[-1].ret == "some"
        for want_parent in (True, False):
            # the directory the backup is renamed into: the lexical parent, or the working directory when that is empty/absent
            cond = z3.And(z3.BoolVal(has_parent), z3.Not(empty)) if want_parent else z3.Or(z3.BoolVal(not has_parent), empty)
            if eng.check(list(p.pc) + [cond])[0]:
                seen.add(want_parent)
                want = "parent-of-file" if want_parent else "cwd"
                (ctx.passed if listed in (want, "resolved(%s)" % want) else ctx.fail)(
                    "C09: the directory scanned for existing backups is the one the backup is created in (lexical parent of the destination as given, or the working directory for a bare name)",
                    "listed %r, backup goes to %r" % (listed, want))
    (ctx.passed if seen == {True, False} else ctx.fail)("witness: ls_file_dir with and without a parent component", str(seen))
    ctx.bounds = "one call; the path is abstract (parent present/absent/empty), every call fallible"


def lemma_backup_path(ctx):
    """get_backup_path: <file> + ".~" + N + "~" in the same directory."""
    eng = ctx.engine("libxcp", loop_bound=2)
    install_backup_env(ctx, eng)
    S = eng.add_summary
    front = lambda rx, h: eng.add_summary(rx, h, front=True)

    def s_nbn(eng, st, callee, args, dty):
        n = eng.fresh_int(st, "u64", "next_num")
        return [Outcome(ok(n), events=[Event("next_backup_num", [deref_ref(eng, st, args[0]).name], n)]),
                Outcome(err("anyhow::Error"), events=[Event("next_backup_num", [], "err")])]
    S(r"^next_backup_num$", s_nbn)
    front(r"^core::fmt::rt::Argument::<'_>::new_display::<u64>$", lambda e, st, c, a, d: Outcome(OpaqueV("Argument", None, {"val": deref_ref(e, st, a[0])})))

    def s_args_new(eng, st, callee, args, dty):
        tmpl = args[0].attrs.get("text") if isinstance(args[0], OpaqueV) else None
        arr = deref_ref(eng, st, args[1])
        return Outcome(OpaqueV("Arguments", None, {"template": tmpl, "args": list(arr.fields)}))
    front(r"^(core::fmt::)?Arguments::<'_>::new::<", s_args_new)

    def s_format(eng, st, callee, args, dty):
        a = args[0]
        tmpl = a.attrs.get("template")
        if tmpl is None:
            raise EngineAbort("format!() template not available")
        raw = eval(tmpl)   # the b"..." literal printed by rustc
        parts, i, ai = [], 0, 0
        while i < len(raw) and raw[i] != 0:
            x = raw[i]
            if x < 0x80:
                parts.append(z3.StringVal(raw[i + 1:i + 1 + x].decode("utf-8")))
                i += 1 + x
            elif x == 0xC0:
                v = a.attrs["args"][ai].attrs["val"]
                ai += 1
                if not isinstance(v, IntV):
                    raise EngineAbort("format!() argument is not an integer")
                parts.append(z3.IntToStr(v.t))
                i += 1
            else:
                raise EngineAbort("format!() template byte 0x%x not understood" % x)
        return Outcome(SStrV(z3.Concat(*parts) if len(parts) > 1 else parts[0]))
    front(r"^(std::fmt::|alloc::fmt::)?format$", s_format)
    front(r"^must_use::<", lambda e, st, c, a, d: Outcome(a[0]))
    front(r"^(std::path::)?Path::to_path_buf$", lambda e, st, c, a, d: Outcome(OpaqueV("PathBuf", "copy_of_file", dict(deref_ref(e, st, a[0]).attrs))))
    S(r"^(std::path::)?PathBuf::into_os_string$", lambda e, st, c, a, d: Outcome(OpaqueV("OsString", None, dict(a[0].attrs))))

    def s_push(eng, st, callee, args, dty):
        os_ = deref_ref(eng, st, args[0])
        nm = os_.attrs["name"]
        os_.attrs["name"] = SStrV(z3.Concat(nm.attrs["t"], sterm(eng, st, args[1])))
        return Outcome(UnitV())
    S(r"^(std::ffi::)?OsString::push::<", s_push)
    S(r"^<(std::path::)?PathBuf as From<(std::ffi::)?OsString>>::from$", lambda e, st, c, a, d: Outcome(OpaqueV("PathBuf", "backup", dict(a[0].attrs))))
    fn = fn_named(eng.funcs, "get_backup_path")
    st = State()
    b = z3.String("file_name")
    st.pc += [z3.Length(b) >= 1, z3.Length(b) <= 8]
    f = OpaqueV("Path", "file", {"name": SStrV(b), "dir": "parent-of-file"})
    paths = eng.run(fn.name, [RefV(Cell(f))], st)
    ctx.paths += len(paths)
    okn = 0
    for p in paths:
        if p.status != "return":
            ctx.fail("get_backup_path: path ends in return", "%s %s" % (p.status, p.msg))
            continue
        nb = [e for e in p.trace if e.name == "next_backup_num"]
        if any(is_errev(e) for e in p.trace):
            (ctx.passed if is_err(p.ret) else ctx.fail)("C04/C09: without a backup number there is no backup path", str(trace_names(p)))
            continue
        okn += 1
        r = p.ret.fields[0]
        if len(nb) != 1 or nb[0].args[0] != "file":
            ctx.fail("C09: the number is computed for the file being backed up", str(trace_names(p)))
            continue
        if r.attrs.get("dir") != "parent-of-file":
            ctx.fail("C09: the backup stays in the file's own directory", repr(r.attrs.get("dir")))
        ctx.lemma(eng, "C09: the backup path is <file>.~N~ with the number just computed", p.pc,
                  r.attrs["name"].attrs["t"] == z3.Concat(b, z3.StringVal(".~"), z3.IntToStr(nb[0].ret.t), z3.StringVal("~")))
    (ctx.passed if okn else ctx.fail)("witness: get_backup_path success path", "")
    ctx.bounds = "any file name of 1..8 characters, any u64 backup number"


def validate_backup_vectors(ctx):
    """translator validation with the repository's own unit-test cases (test_is_backup, test_backup_num_scan):
    concrete names through the MIR interpreter, compared with what the tests assert of the real functions"""
    n = 0
    cases = [("file.txt", "file.txt.~123~", 123), ("other_file.txt", "file.txt.~123~", None), ("le.txt", "file.txt.~123~", None)]
    for base, cand, want in cases:
        eng = ctx.engine("libxcp", loop_bound=2)
        install_backup_env(ctx, eng)
        fn = fn_named(eng.funcs, "is_num_backup")
        c = OpaqueV("Path", "candidate", {"name": SStrV(View.const(cand), None)})
        paths = [p for p in eng.run(fn.name, [RefV(Cell(SStrV(View.const(base)))), RefV(Cell(c))], State()) if p.status == "return"]
        got = [None if p.ret.vname == "None" else z3.simplify(p.ret.fields[0].t) for p in paths]
        got = [g if g is None else (g.as_long() if z3.is_int_value(g) else "?") for g in got]
        if len(paths) == 1 and (got[0] == want or (want is not None and got[0] == "?")):
            if got[0] == "?":
                ok_, _ = eng.valid(paths[0].pc, paths[0].ret.fields[0].t == want)
                if not ok_:
                    ctx.fail("translator validation: is_num_backup test vectors", "%s/%s -> %r" % (base, cand, got))
                    continue
            n += 1
        else:
            ctx.fail("translator validation: the MIR interpreter reproduces the repository's is_num_backup test vectors", "%s/%s: got %r, test expects %r" % (base, cand, got, want))
    for listing, want in ((["file.txt"], 1), (["file.txt", "file.txt.~123~"], 124), (["file.txt", "file.txt.~123~", "file.txt.~999~"], 1000)):
        eng = ctx.engine("libxcp", loop_bound=3)
        install_backup_env(ctx, eng)
        ents = [OpaqueV("DirEntry", "entry%d" % i, {"name": SStrV(View.const(nm), None), "t": View.const(nm)}) for i, nm in enumerate(listing)]
        _install_readdir(ctx, eng, ents)
        fn = fn_named(eng.funcs, "next_backup_num")
        f = OpaqueV("Path", "file", {"name": SStrV(View.const("file.txt"))})
        paths = [p for p in eng.run(fn.name, [RefV(Cell(f))], State()) if p.status == "return" and is_ok(p.ret)]
        good = len(paths) == 1 and eng.valid(paths[0].pc, paths[0].ret.fields[0].t == want)[0]
        if good:
            n += 1
        else:
            ctx.fail("translator validation: the MIR interpreter reproduces the repository's next_backup_num test vectors", "%r: expected %d" % (listing, want))
    (ctx.passed if n == 6 else ctx.fail)("translator validation: the repository's backup unit-test vectors are reproduced by the MIR interpreter", "%d/6" % n)
    ctx.validated = getattr(ctx, "validated", 0) + n
