"""finalise_copy / Drop for CopyHandle: metadata order, flags, fsync last, error handling (C10, C18, C04)."""
import z3

from props.common import *
from props.env import install_env


def lemma_finalise(ctx):
    eng = ctx.engine("libxcp", loop_bound=2)
    install_env(ctx, eng)
    eng.add_summary(r"^Result::<\(\), libfs::Error>::is_err$", lambda e, st, c, a, d: Outcome(BoolV(is_err(deref_ref(e, st, a[0])))))
    fn = fn_named(eng.funcs, "CopyHandle::finalise_copy")
    st = State()
    cfg, cv = mk_config(ctx, eng, st)
    handle = mk_handle(ctx, eng, st, cfg)
    paths = eng.run(fn.name, [RefV(Cell(handle))], st)
    ctx.paths += len(paths)
    order = ["copy_permissions", "copy_timestamps", "copy_owner", "sync"]
    flag = {"copy_permissions": z3.Not(cv["no_perms"].t), "copy_timestamps": z3.Not(cv["no_timestamps"].t),
            "copy_owner": cv["ownership"].t, "sync": cv["fsync"].t}
    full = 0
    for p in paths:
        if p.status != "return":
            ctx.fail("finalise_copy: path ends in return", "%s %s" % (p.status, p.msg))
            continue
        names = [e.name for e in p.trace]
        for e in p.trace:
            if e.name in order and (e.args[0] != "infd" and e.name != "sync" or e.args[-1] != "outfd"):
                ctx.fail("C10: %s is applied from the source descriptor to the destination descriptor" % e.name, str(e.args))
        # each step happens iff requested (as long as no earlier mandatory step failed)
        failed = [e for e in p.trace if is_errev(e) and e.name != "copy_owner"]
        for i, step in enumerate(order):
            present = step in names
            if present:
                ctx.lemma(eng, "C10/C18: %s runs only when requested" % step, p.pc, flag[step], info={"trace": trace_names(p)})
                if names.count(step) != 1:
                    ctx.fail("C10/C18: %s at most once per file" % step, str(names))
            elif not failed:
                ctx.lemma(eng, "C10/C18: %s is not skipped when requested" % step, p.pc, z3.Not(flag[step]), info={"trace": trace_names(p)})
        idx = [order.index(n) for n in names if n in order]
        # C18: sync is the last step; C10: fixed relative order of the others
        if "sync" in names and names[-1] != "sync":
            ctx.fail("C18: fsync is the last step of finalisation", str(names))
        # F9: fchown clears set-uid/set-gid, so the mode must be applied after the owner
        if "copy_permissions" in names and "copy_owner" in names:
            if names.index("copy_owner") > names.index("copy_permissions"):
                ctx.fail("C10: ownership is applied before the permission bits (fchown clears set-id bits)", str(names),
                         key="finalise:chown-after-chmod")
            else:
                ctx.passed("C10: ownership is applied before the permission bits (fchown clears set-id bits)")
        if failed:
            (ctx.passed if is_err(p.ret) else ctx.fail)("C04: failing %s makes finalise_copy return Err" % failed[0].name, str(trace_names(p)))
        elif not is_ok(p.ret):
            ctx.fail("finalise_copy: Ok when no mandatory step failed (ownership failures are only warned about)", str(trace_names(p)))
        if sorted(names) == sorted(order):
            full += 1
    (ctx.passed if full else ctx.fail)("witness: all four steps on one path", "")
    ctx.bounds = "loop-free; all 16 flag combinations x ok/err outcome of every step"


def lemma_drop(ctx):
    """Drop for CopyHandle runs finalise_copy exactly once; a finalisation error must not be lost (C04)."""
    eng = ctx.engine("libxcp", loop_bound=2)
    install_env(ctx, eng)
    eng.inline += [r"::finalise_copy$"]
    eng.add_summary(r"^Result::<\(\), libfs::Error>::is_err$", lambda e, st, c, a, d: Outcome(BoolV(is_err(deref_ref(e, st, a[0])))))
    fn = fn_named(eng.funcs, "<CopyHandle as Drop>::drop")
    st = State()
    cfg, cv = mk_config(ctx, eng, st)
    handle = mk_handle(ctx, eng, st, cfg)
    paths = eng.run(fn.name, [RefV(Cell(handle))], st)
    ctx.paths += len(paths)
    swallowed = 0
    for p in paths:
        if p.status != "return":
            ctx.fail("drop: path ends in return", "%s %s" % (p.status, p.msg))
            continue
        failed = [e for e in p.trace if is_errev(e) and e.name in ("copy_permissions", "copy_timestamps", "sync")]
        reported = [e for e in p.trace if e.name in ("send", "panic")]
        if failed and not reported:
            swallowed += 1
    if swallowed:
        ctx.fail("C04: a failed chmod/utimens/fsync during finalisation is reported (not only logged)",
                 "%d paths of Drop for CopyHandle end normally after a failed finalisation step with no error update, return value or panic" % swallowed,
                 key="drop:finalise-error-swallowed")
    else:
        ctx.passed("C04: a failed chmod/utimens/fsync during finalisation is reported (not only logged)")
    ctx.bounds = "loop-free; all flag combinations x ok/err of each step"
