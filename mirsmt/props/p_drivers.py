"""Driver::copy of both drivers: thread/channel plumbing as seen in the code (C06, C07, C12, C20)."""
import re

import z3

from props.common import *
from props.env import install_env


def _run_driver(ctx, which, cfg_workers=2):
    eng = ctx.engine("libxcp", loop_bound=4)
    install_env(ctx, eng)
    S = eng.add_summary
    front = lambda rx, h: eng.add_summary(rx, h, front=True)
    eng.inline += [r"^Config::num_workers$"]
    S(r"^num_cpus::get$|^get$", lambda e, st, c, a, d: Outcome(IntV(2, "usize")))
    S(r"^<str as ToString>::to_string$", lambda e, st, c, a, d: Outcome(OpaqueV("String", None)), front=True)
    S(r"^(std::path::)?Path::to_path_buf$", lambda e, st, c, a, d: Outcome(OpaqueV("PathBuf", "dest_copy")))

    def s_unbounded(eng, st, callee, args, dty):
        tx = OpaqueV("crossbeam_channel::Sender<Operation>", "work_tx", {"chan": "work"})
        rx = OpaqueV("crossbeam_channel::Receiver<Operation>", "work_rx", {"chan": "work"})
        return Outcome(AggV("tuple", None, [tx, rx]), events=[Event("channel", ["unbounded"], None)])
    S(r"^(crossbeam_channel::)?unbounded::<Operation>$", s_unbounded)
    S(r"^(crossbeam_channel::)?bounded::<Operation>$", lambda e, st, c, a, d: Outcome(AggV("tuple", None, [
        OpaqueV("crossbeam_channel::Sender<Operation>", "work_tx"), OpaqueV("crossbeam_channel::Receiver<Operation>", "work_rx")]),
        events=[Event("channel", ["bounded", a[0]], None)]))
    S(r"^<crossbeam_channel::Sender<Operation> as Clone>::clone$", lambda e, st, c, a, d: Outcome(OpaqueV("crossbeam_channel::Sender<Operation>", "work_tx_clone"), events=[Event("sender-clone", [], None)]))
    S(r"^<crossbeam_channel::Receiver<Operation> as Clone>::clone$", lambda e, st, c, a, d: Outcome(OpaqueV("crossbeam_channel::Receiver<Operation>", "work_rx_clone")))

    def s_spawn(eng, st, callee, args, dty):
        clo = args[0]
        caps = dict(zip(clo.vname[1], clo.fields)) if isinstance(clo.vname, tuple) else {}
        kinds = sorted(getattr(v, "ty", type(v).__name__) for v in clo.fields)
        n = st.ghost.get("spawned", 0)
        st.ghost["spawned"] = n + 1
        h = OpaqueV("JoinHandle", "thread%d" % n, {"closure": clo})
        return Outcome(h, events=[Event("spawn", [h.name, clo.ty, kinds], None)])
    S(r"^(std::thread::)?spawn::<", s_spawn)

    def s_join(eng, st, callee, args, dty):
        h = args[0]
        nm = getattr(h, "name", "?")
        return [Outcome(AggV("Result", 0, [ok()], "Ok"), events=[Event("join", [nm], "ok")]),
                Outcome(AggV("Result", 0, [err("anyhow::Error")], "Ok"), events=[Event("join", [nm], "thread-err")]),
                Outcome(AggV("Result", 1, [OpaqueV("Box<dyn Any>")], "Err"), events=[Event("join", [nm], "panicked")])]
    S(r"^JoinHandle::<.*>::join$", s_join)

    def s_map_err(eng, st, callee, args, dty):
        r = args[0]
        return Outcome(r if r.vname == "Ok" else AggV("Result", 1, [OpaqueV("XcpError", "join_error")], "Err"))
    S(r"^Result::<.*>::map_err::<", s_map_err)
    # Vec<JoinHandle>
    S(r"^Vec::<JoinHandle<.*>>::(with_capacity|new)$", lambda e, st, c, a, d: Outcome(OpaqueV("Vec", None, {"items": []})))

    def s_push(eng, st, callee, args, dty):
        deref_ref(eng, st, args[0]).attrs["items"].append(args[1])
        return Outcome(UnitV())
    S(r"^Vec::<JoinHandle<.*>>::push$", s_push)
    S(r"^<Vec<JoinHandle<.*>> as IntoIterator>::into_iter$", lambda e, st, c, a, d: Outcome(OpaqueV("IntoIter", None, {"items": list(a[0].attrs["items"]), "pos": Cell(0)})))

    def s_next(eng, st, callee, args, dty):
        it = deref_ref(eng, st, args[0])
        i = it.attrs["pos"].v
        if i < len(it.attrs["items"]):
            it.attrs["pos"].v = i + 1
            return Outcome(AggV("Option", 1, [it.attrs["items"][i]], "Some"))
        return Outcome(AggV("Option", 0, [], "None"))
    S(r"^<std::vec::IntoIter<JoinHandle<.*>> as Iterator>::next$", s_next)
    def arc_drop(eng, st, v):
        rc = v.attrs.get("rc")
        if rc is not None:
            rc.v -= 1
            st.trace.append(Event("arc_drop", [v.name, rc.v], None))
        return None
    eng.add_drop_hook(r"Arc<dyn (feedback::)?StatusUpdater>", arc_drop)
    cands = [n for n in eng.funcs if n.startswith(which + "::<impl") and n.endswith("::copy")]
    if len(cands) != 1:
        raise EngineAbort("Driver::copy of %s not found: %r" % (which, cands))
    fn = eng.funcs[cands[0]]
    st = State()
    cfg, cv = mk_config(ctx, eng, st)
    nworkers = 2          # what num_cpus::get() answers in this model; `workers: 0` in the configuration means "one per CPU"
    st.pc.append(cv["workers"].t == cfg_workers)
    drv = OpaqueV(which + "::Driver", "driver")
    drv.attrs[("f", None, 0)] = mk_arc(cfg, "Arc<config::Config>", "cfg_arc", rc=1)
    sources = OpaqueV("Vec<PathBuf>", "sources", {"items": []})
    dest = RefV(Cell(OpaqueV("Path", "dest")))
    upd = mk_arc(OpaqueV("dyn StatusUpdater", "updater"), "Arc<dyn StatusUpdater>", "stat", rc=1)
    paths = eng.run(fn.name, [RefV(Cell(drv)), sources, dest, upd], st)
    ctx.paths += len(paths)
    return eng, paths, nworkers


def lemma_driver_copy(ctx):
    for which, cfgw in (("parfile", 2), ("parblock", 2), ("parfile", 0), ("parblock", 0)):
        eng, paths, nworkers = _run_driver(ctx, which, cfgw)
        full = 0
        for p in paths:
            tn = trace_names(p)
            if p.status != "return":
                ctx.fail("%s Driver::copy: path ends in return" % which, "%s %s" % (p.status, p.msg))
                continue
            ev = p.trace
            ch = [e for e in ev if e.name == "channel"]
            sp = [e for e in ev if e.name == "spawn"]
            jn = [e for e in ev if e.name == "join"]
            if len(ch) != 1 or ch[0].args[0] != "unbounded":
                ctx.fail("C07: the work queue is unbounded (the walker never blocks on a full queue)", str(ch))
            if [e for e in ev if e.name == "sender-clone"]:
                ctx.fail("C07: the walker owns the only sender of the work queue (dropping it closes the queue)", str(tn))
            # who got the sender: exactly one spawned closure captures a Sender<Operation>
            holders = [e for e in sp if any("Sender<Operation>" in k for k in e.args[2])]
            if len(holders) != 1:
                ctx.fail("C07: the walker owns the only sender of the work queue (dropping it closes the queue)", str([e.args for e in sp]))
            else:
                ctx.passed("C07: the walker owns the only sender of the work queue (dropping it closes the queue)")
            want = nworkers + 1 if which == "parfile" else 2
            if len(sp) != want and cfgw:
                ctx.fail("C06: %s starts the walker and %s" % (which, "`workers` copy workers" if which == "parfile" else "one dispatcher"), "%d threads" % len(sp))
            if not cfgw:
                (ctx.passed if (len(sp) >= 2 if which == "parfile" else len(sp) == 2) else ctx.fail)(
                    "C01/C02/C04/C06/C12: with `workers: 0` (one per CPU) the driver still starts its consumers -- the walker plus at least one copy worker, or the dispatcher "
                    "(a queue nobody reads ends in Ok(()) with nothing copied)", "%s: %d threads for %d CPUs" % (which, len(sp), nworkers))
            # C12/C07: every thread gets its own clone of the updater; copy() keeps none after returning
            good = all(any("StatusUpdater" in k for k in e.args[2]) for e in sp)
            (ctx.passed if good else ctx.fail)("C12: every spawned thread reports through a clone of the client's updater", str([e.args[2] for e in sp]))
            # C12/C07: copy() consumes its own handle on the updater (the channel can close once the threads are done)
            own = [e for e in ev if e.name == "arc_drop" and e.args[0] == "stat"]
            (ctx.passed if len(own) == 1 else ctx.fail)("C12: copy() gives up its own reference to the client's updater before returning (the update channel can close)",
                                                        "drops of the parameter: %d; %s" % (len(own), tn))
            failed = [e for e in jn if e.ret != "ok"]
            if failed:
                (ctx.passed if is_err(p.ret) else ctx.fail)("C04: a failed or panicked thread makes copy() return Err", str(tn))
                continue
            # all threads joined before Ok is returned
            joined = sorted(e.args[0] for e in jn)
            spawned = sorted(e.args[0] for e in sp)
            if not is_ok(p.ret):
                ctx.fail("Driver::copy: Ok when every thread succeeded", str(tn))
            elif joined != spawned:
                ctx.fail("C06/C07: copy() returns Ok only after joining every thread it started (walker, workers/dispatcher)", "%s vs %s" % (joined, spawned))
            else:
                full += 1
                ctx.passed("C06/C07: copy() returns Ok only after joining every thread it started (walker, workers/dispatcher)")
        (ctx.passed if full else ctx.fail)("witness: %s copy() success path" % which, "")
    ctx.bounds = "both drivers, workers = 2 and workers = 0 (with 2 CPUs), every join outcome {ok, thread error, panic}"


def lemma_load_driver(ctx):
    """load_driver: the library's own entry point refuses a configuration whose block size is zero (the copy loops of both drivers
    would spin or divide by zero); main's option check does not protect library clients."""
    eng = ctx.engine("libxcp", loop_bound=2)
    install_env(ctx, eng)
    S = eng.add_summary
    S(r"^<str as ToString>::to_string$|^<String as From<&str>>::from$|^str::<impl str>::to_owned$", lambda e, st, c, a, d: Outcome(OpaqueV("String", None)), front=True)

    def s_new(eng, st, callee, args, dty):
        which = "parfile" if "parfile" in callee else "parblock"
        return [Outcome(ok(OpaqueV(which + "::Driver", which)), events=[Event("driver_new", [which], "ok")])]
    S(r"^(drivers::)?(parfile|parblock)::Driver::new$|^(parfile|parblock)::<impl .*>::new$", s_new, front=True)
    S(r"^Box::<.*>::new$", lambda e, st, c, a, d: Outcome(OpaqueV("Box<dyn CopyDriver>", getattr(a[0], "name", "?"))), front=True)
    fn = fn_named(eng.funcs, "load_driver")
    seen = set()
    for variant in (0, 1):
        st = State()
        cfg, cv = mk_config(ctx, eng, st)
        arc = mk_arc(cfg, "Arc<config::Config>", "cfg_arc", rc=1)
        drv = AggV("Drivers", variant, [], ["ParFile", "ParBlock"][variant])
        paths = eng.run(fn.name, [drv, RefV(Cell(arc))], st)
        ctx.paths += len(paths)
        for p in paths:
            if p.status != "return":
                ctx.fail("load_driver: path ends in return", "%s %s" % (p.status, p.msg))
                continue
            made = [e for e in p.trace if e.name == "driver_new"]
            if is_ok(p.ret):
                seen.add("ok")
                ctx.lemma(eng, "C07/C16: load_driver hands out a driver only for a block size >= 1 (with 0 the parfile copy loop never advances and the block "
                               "partition divides by zero -- library clients do not pass through main's option check)", p.pc, cv["block_size"].t >= 1,
                          key="load_driver:block-size-zero")
                (ctx.passed if len(made) == 1 and made[0].args[0] == ("parfile", "parblock")[variant] else ctx.fail)(
                    "C06/C16: load_driver constructs the driver that was asked for", str(trace_names(p)))
            else:
                seen.add("err")
                pass    # (which other configurations load_driver may refuse is not the properties' business: refusing is loud)
    for k in ("ok", "err"):
        (ctx.passed if k in seen else ctx.fail)("witness: load_driver %s" % k, str(sorted(seen)))
    ctx.bounds = "loop-free; both drivers, every configuration"
