"""Differential self-test of the MIR interpreter (the trusted base of every E2 lemma): a corpus of small Rust functions
(/verif/mirsmt/selftest/corpus) is compiled twice from the same source -- to a native binary that prints its results on
a grid of inputs, and to MIR that the interpreter executes

  * concretely on every grid point (same value, or a panic where the native code panics), and
  * symbolically once per function (both arguments free): for every grid point exactly one explored path must admit it,
    and on that path the solver must prove result == native result (or the path must be the panic the native run showed).

Nothing here concerns xcp's properties directly; it is translator validation in the sense of the brief, run from the
same engine build and summary library the property lemmas use."""
import os
import re
import shutil
import subprocess
import types

import z3

from props.common import *

CORPUS = os.path.join(os.path.dirname(os.path.dirname(os.path.abspath(__file__))), "selftest", "corpus")
U64 = (1 << 64) - 1


def _build(ctx):
    import xv
    import e2run
    import mir
    d = os.path.join(ctx.scr.root, "selftest")
    if not os.path.isdir(d):
        shutil.copytree(CORPUS, d, ignore=shutil.ignore_patterns("target", "Cargo.lock"))
    env = dict(xv.ENV, CARGO_TARGET_DIR=os.path.join(d, "target"))
    r = subprocess.run(["cargo", "build", "--offline", "-q"], cwd=d, env=env, capture_output=True, text=True)
    if r.returncode != 0:
        raise EngineAbort("self-test corpus does not build: " + r.stderr[-400:])
    out = subprocess.run([os.path.join(d, "target", "debug", "corpus-native")], capture_output=True, text=True)
    native = {}
    for line in out.stdout.splitlines():
        m = re.match(r"^(\w+) (\d+) (\d+) = (\w+)$", line)
        if m:
            native[(m.group(1), int(m.group(2)), int(m.group(3)))] = m.group(4)
    os.utime(os.path.join(d, "src", "lib.rs"))
    r = subprocess.run(["cargo", "+nightly", "rustc", "--offline", "--lib", "--", "-Zunpretty=mir", "-C", "debug-assertions=off", "-C", "overflow-checks=on"],
                       cwd=d, env=dict(env, CARGO_TARGET_DIR=os.path.join(d, "target-mir")), capture_output=True, text=True)
    if r.returncode != 0 or not r.stdout:
        raise EngineAbort("self-test corpus: MIR dump failed: " + r.stderr[-400:])
    funcs = mir.parse_mir(r.stdout)
    e2run.add_impl_aliases(funcs, d)
    enums = e2run.source_enums(types.SimpleNamespace(src=os.path.join(d, "src")))
    return funcs, enums, native


def _engine(ctx, funcs, enums, loop_bound):
    import sym
    import summaries
    eng = sym.Engine(funcs, enums, loop_bound=loop_bound)
    summaries.install_common(eng)
    ctx.engines.append(eng)
    return eng


def _val(v):
    if isinstance(v, IntV):
        s = z3.simplify(v.t)
        return s.as_long() if z3.is_int_value(s) else None
    if isinstance(v, BoolV):
        s = z3.simplify(v.t)
        return 1 if z3.is_true(s) else 0 if z3.is_false(s) else None
    return None


def lemma_interpreter_selftest(ctx):
    funcs, enums, native = _build(ctx)
    names = sorted(set(k[0] for k in native))
    full = [0, 1, 2, 3, 4, 5, 6, 9, U64]
    grid = full if ctx.tier == "thorough" else [0, 1, 2, 3, 6, U64]
    n_conc = n_sym = 0
    bad_conc, bad_sym, aborted = [], [], []
    for name in names:
        if name not in funcs:
            aborted.append("%s: not in the MIR dump" % name)
            continue
        # ---- concrete
        for a in grid:
            for b in grid:
                want = native[(name, a, b)]
                try:
                    eng = _engine(ctx, funcs, enums, 40)
                    paths = [p for p in eng.run(name, [IntV(a, "u64"), IntV(b, "u64")], State()) if p.status != "infeasible"]
                except EngineAbort as e:
                    aborted.append("%s(%d,%d): %s" % (name, a, b, str(e)[:120]))
                    break
                if len(paths) != 1:
                    bad_conc.append("%s(%d,%d): %d paths on a concrete input" % (name, a, b, len(paths)))
                    continue
                p = paths[0]
                got = "panic" if p.status == "panic" else (str(_val(p.ret)) if p.status == "return" else p.status)
                if got != want:
                    bad_conc.append("%s(%d,%d): interpreter %s, native %s" % (name, a, b, got, want))
                n_conc += 1
            else:
                continue
            break
        # ---- symbolic
        try:
            eng = _engine(ctx, funcs, enums, 24)
            st = State()
            a_s, b_s = eng.fresh_int(st, "u64", "a"), eng.fresh_int(st, "u64", "b")
            paths = [p for p in eng.run(name, [a_s, b_s], st) if p.status != "infeasible"]
        except EngineAbort as e:
            aborted.append("%s(sym): %s" % (name, str(e)[:120]))
            continue
        for a in grid:
            for b in grid:
                want = native[(name, a, b)]
                pin = [a_s.t == a, b_s.t == b]
                hits = []
                for p in paths:
                    sat, _m = eng.check(p.pc + pin)
                    if sat:
                        hits.append(p)
                if len(hits) != 1:
                    if any(p.status == "bound" for p in hits):
                        continue        # deeper than the unrolling bound: not decided symbolically (the concrete run covers it)
                    bad_sym.append("%s(%d,%d): %d paths admit the input" % (name, a, b, len(hits)))
                    continue
                p = hits[0]
                if p.status == "bound":
                    continue
                if want == "panic" or p.status == "panic":
                    if not (want == "panic" and p.status == "panic"):
                        bad_sym.append("%s(%d,%d): path status %s, native %s" % (name, a, b, p.status, want))
                else:
                    r = p.ret
                    term = r.t if isinstance(r, IntV) else z3.If(r.t, 1, 0)
                    ok_, _ = eng.valid(p.pc + pin, term == int(want))
                    if not ok_:
                        bad_sym.append("%s(%d,%d): symbolic result differs from native %s" % (name, a, b, want))
                n_sym += 1
    nm_c = "translator validation: the MIR interpreter reproduces the compiled corpus on every grid input (concrete runs)"
    nm_s = "translator validation: the symbolic paths of every corpus function agree with the compiled code on every grid input"
    (ctx.fail if bad_conc else ctx.passed)(nm_c, "; ".join(bad_conc[:8]) or "%d runs" % n_conc)
    (ctx.fail if bad_sym else ctx.passed)(nm_s, "; ".join(bad_sym[:8]) or "%d points" % n_sym)
    if aborted:
        ctx.fail("translator validation: every corpus function is within the interpreter's reach", "; ".join(aborted[:8]))
    ctx.validated = getattr(ctx, "validated", 0) + n_conc + n_sym
    ctx.bounds = "%d corpus functions x %dx%d input grid (values %s); symbolic runs with loop bound 24" % (len(names), len(grid), len(grid), grid)
