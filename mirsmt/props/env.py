"""The libxcp-level environment: contracts of libfs (as checked at L1) and of std::fs,
channels and the thread pool.  Every call is recorded as an Event; fallible calls fork
into an Ok and an Err outcome (fault injection = the solver/path enumeration picks).
"""
import re

import z3

from props.common import *


class Env:
    """knobs: which calls may fail; what the model file system looks like"""

    def __init__(self, ctx, eng, faults=True, fail_only=None):
        self.ctx, self.eng = ctx, eng
        self.faults = faults
        self.fail_only = fail_only      # set of event names that may fail (None: all)

    def may_fail(self, name):
        return self.faults and (self.fail_only is None or name in self.fail_only)

    def fallible(self, name, ret_ok=None, err_ty="Error", argsel=None):
        env = self

        def h(eng, st, callee, args, dty):
            a = argsel(eng, st, args) if argsel else args
            outs = [Outcome(ok(ret_ok(eng, st, args, dty) if ret_ok else UnitV()), events=[Event(name, a, "ok")])]
            if env.may_fail(name):
                outs.append(Outcome(err(err_ty), events=[Event(name, a, "err")]))
            return outs
        return h


def fs_fact(name, pathname):
    """the file-system fact `name`(path) as a solver variable: the same variable wherever and however it is asked"""
    return z3.Bool("%s_%s" % (name, re.sub(r"\W+", "_", pathname)))


def fs_axioms(pathname):
    e, d, f, l = (fs_fact(n, pathname) for n in ("exists", "is_dir", "is_file", "is_symlink"))
    le = fs_fact("lexists", pathname)
    return [z3.Implies(d, e), z3.Implies(f, e), z3.Not(z3.And(d, f)), z3.Implies(e, le), z3.Implies(l, le)]


def path_id(eng, st, v):
    """abstract identity of a path argument (&Path / &PathBuf / PathBuf)"""
    if isinstance(v, RefV):
        v = eng.read(st, v.cell, v.path, None)
    return v


def install_env(ctx, eng, faults=True, fail_only=None):
    env = Env(ctx, eng, faults, fail_only)
    S = eng.add_summary
    install_log_off(eng)
    fid = lambda e, st, a: [file_id(x, e, st) if isinstance(x, (RefV, OpaqueV)) else x for x in a]

    # ---- libfs
    def s_cfb(eng, st, callee, args, dty):
        n = args[2]
        k = eng.fresh_int(st, "usize", "k")
        who = fid(eng, st, args[:2])
        outs = [Outcome(ok(k), [z3.Or(z3.And(n.t >= 1, k.t >= 1, k.t <= n.t), z3.And(n.t == 0, k.t == 0))],
                        events=[Event("copy_file_bytes", who + [n], k)])]
        if env.may_fail("copy_file_bytes"):
            outs.append(Outcome(err("libfs::Error"), events=[Event("copy_file_bytes", who + [n], "err")]))
        return outs
    S(r"^(libfs::)?copy_file_bytes$", s_cfb)

    def s_cfo(eng, st, callee, args, dty):
        n, off = args[2], args[3]
        k = eng.fresh_int(st, "usize", "k")
        who = fid(eng, st, args[:2])
        # contract proved at L1: Ok(k) with 1 <= k <= min(n, bytes left before EOF); Ok(0) only for n == 0 or at EOF; or Err
        ln = st.ghost.get("src_len")
        if ln is None:
            cond = z3.Or(z3.And(n.t >= 1, k.t >= 1, k.t <= n.t), z3.And(n.t == 0, k.t == 0))
        else:
            avail = z3.If(ln.t > off.t, ln.t - off.t, 0)
            lim = z3.If(avail < n.t, avail, n.t)
            cond = z3.Or(z3.And(lim >= 1, k.t >= 1, k.t <= lim), z3.And(lim <= 0, k.t == 0))
        outs = [Outcome(ok(k), [cond], events=[Event("copy_file_offset", who + [n, off], k)])]
        if env.may_fail("copy_file_offset"):
            outs.append(Outcome(err("libfs::Error"), events=[Event("copy_file_offset", who + [n, off], "err")]))
        return outs
    S(r"^(libfs::)?copy_file_offset$", s_cfo)

    def s_nss(eng, st, callee, args, dty):
        pos = args[2]
        nd = eng.fresh_int(st, "u64", "next_data")
        nh = eng.fresh_int(st, "u64", "next_hole")
        ln = st.ghost.get("src_len")
        conds = [nd.t >= pos.t, nh.t >= nd.t]
        if ln is not None:
            # contract (L1): pos <= nd <= nh <= len; nh > pos whenever pos < len (data found, or EOF mapped to len)
            conds += [nh.t <= ln.t, z3.Implies(pos.t < ln.t, nh.t > pos.t)]
        who = fid(eng, st, args[:2])
        outs = [Outcome(ok(AggV("tuple", None, [nd, nh])), conds, events=[Event("next_sparse_segments", who + [pos], (nd, nh))])]
        if env.may_fail("next_sparse_segments"):
            outs.append(Outcome(err("libfs::Error"), events=[Event("next_sparse_segments", who + [pos], "err")]))
        return outs
    S(r"^(libfs::)?next_sparse_segments$", s_nss)

    def boolres(name, errty="libfs::Error"):
        def h(eng, st, callee, args, dty):
            b = BoolV(z3.Bool("%s_%d" % (name, next(eng.fresh_ids))))
            who = fid(eng, st, args)
            outs = [Outcome(ok(b), events=[Event(name, who, b)])]
            if env.may_fail(name):
                outs.append(Outcome(err(errty), events=[Event(name, who, "err")]))
            return outs
        return h
    def s_psparse(eng, st, callee, args, dty):
        f = deref_ref(eng, st, args[0])
        who = fid(eng, st, args)
        b = z3.Bool("probably_sparse_%d" % next(eng.fresh_ids))
        conds = []
        m = f.attrs.get("meta") if isinstance(f, OpaqueV) else None
        if m is not None:
            for nm in ("blocks", "len"):
                if nm not in m.attrs:
                    m.attrs[nm] = eng.fresh_int(st, "u64", "%s_%s" % (nm, m.name))
            # contract checked at L1 (lemma_probably_sparse): st_blocks < st_size / 512
            conds.append(b == (m.attrs["blocks"].t < m.attrs["len"].t / 512))
        outs = [Outcome(ok(BoolV(b)), conds, events=[Event("probably_sparse", who, BoolV(b))])]
        if env.may_fail("probably_sparse"):
            outs.append(Outcome(err("libfs::Error"), events=[Event("probably_sparse", who, "err")]))
        return outs
    S(r"^(libfs::)?probably_sparse$", s_psparse)
    S(r"^(libfs::)?reflink$", boolres("reflink"))
    for nm in ("allocate_file", "copy_permissions", "copy_timestamps", "copy_owner", "sync", "copy_node"):
        S(r"^(libfs::)?%s$" % nm, env.fallible(nm, err_ty="libfs::Error", argsel=fid))

    # std equivalents of the libfs helpers (an edit that calls std directly must produce the same events)
    S(r"^(std::fs::)?File::(sync_all|sync_data)$", env.fallible("sync", err_ty="std::io::Error", argsel=fid))
    S(r"^(std::fs::)?File::set_len$", env.fallible("allocate_file", err_ty="std::io::Error", argsel=fid))

    # ---- std::fs
    def s_open(kind):
        def h(eng, st, callee, args, dty):
            p = path_id(eng, st, args[0])
            f = OpaqueV("std::fs::File", "%s_fd%d" % (kind, next(eng.fresh_ids)), {"path": p, "mode": kind})
            outs = [Outcome(ok(f), events=[Event("File::" + kind, [p], f)])]
            if env.may_fail("File::" + kind):
                outs.append(Outcome(err("std::io::Error"), events=[Event("File::" + kind, [p], "err")]))
            return outs
        return h
    S(r"^(std::fs::)?File::open::<", s_open("open"))
    S(r"^(std::fs::)?File::create::<", s_open("create"))

    # OpenOptions builder: equivalent to File::create only with write + create + truncate
    S(r"^(std::fs::)?OpenOptions::new$", lambda e, st, c, a, d: Outcome(OpaqueV("OpenOptions", None, {"flags": {}})))

    def s_oo_flag(eng, st, callee, args, dty):
        oo = deref_ref(eng, st, args[0])
        flag = re.search(r"OpenOptions::(\w+)$", callee).group(1)
        v = args[1]
        oo.attrs["flags"] = dict(oo.attrs["flags"])
        oo.attrs["flags"][flag] = v
        return Outcome(args[0])
    S(r"^(std::fs::)?OpenOptions::(read|write|append|truncate|create|create_new)$", s_oo_flag)
    S(r"^<(std::fs::)?OpenOptions as (std::os::unix::fs::)?OpenOptionsExt>::(mode|custom_flags)$", lambda e, st, c, a, d: Outcome(a[0]))

    def s_oo_open(eng, st, callee, args, dty):
        oo = deref_ref(eng, st, args[0])
        p = path_id(eng, st, args[1])
        fl = oo.attrs["flags"]
        on = lambda k: isinstance(fl.get(k), BoolV) and z3.is_true(z3.simplify(fl[k].t))
        if on("write") and on("create") and on("truncate") and not on("append"):
            kind = "create"
        elif not (on("write") or on("append")):
            kind = "open"
        else:
            kind = "open_opts"
        f = OpaqueV("std::fs::File", "%s_fd%d" % (kind, next(eng.fresh_ids)), {"path": p, "mode": kind, "flags": sorted(k for k in fl if on(k))})
        outs = [Outcome(ok(f), events=[Event("File::" + kind, [p, f.attrs["flags"]], f)])]
        if env.may_fail("File::" + kind):
            outs.append(Outcome(err("std::io::Error"), events=[Event("File::" + kind, [p, f.attrs["flags"]], "err")]))
        return outs
    S(r"^(std::fs::)?OpenOptions::open::<", s_oo_open)

    def s_fmeta(eng, st, callee, args, dty):
        f = deref_ref(eng, st, args[0])
        m = f.attrs.get("meta") if isinstance(f, OpaqueV) else None
        if m is None:
            m = OpaqueV("std::fs::Metadata", "meta_of_%s" % getattr(f, "name", "?"))
            if isinstance(f, OpaqueV):
                f.attrs["meta"] = m
        outs = [Outcome(ok(m), events=[Event("File::metadata", [file_id(f)], m)])]
        if env.may_fail("File::metadata"):
            outs.append(Outcome(err("std::io::Error"), events=[Event("File::metadata", [file_id(f)], "err")]))
        return outs
    S(r"^(std::fs::)?File::metadata$", s_fmeta)

    def mattr(name, ty="u64"):
        def h(eng, st, callee, args, dty):
            m = deref_ref(eng, st, args[0])
            if name not in m.attrs:
                m.attrs[name] = eng.fresh_int(st, ty, "%s_%s" % (name, m.name))
                if name == "blksize":
                    st.pc.append(m.attrs[name].t >= 512)
            return Outcome(m.attrs[name])
        return h
    S(r"^(std::fs::)?Metadata::len$|MetadataExt>::(st_)?size$", mattr("len"))
    S(r"MetadataExt>::(st_)?blocks$", mattr("blocks"))
    S(r"MetadataExt>::(st_)?blksize$", mattr("blksize"))

    def pathop(name, nargs=1, errty="std::io::Error"):
        return env.fallible(name, err_ty=errty, argsel=lambda e, st, a: [path_id(e, st, x) for x in a[:nargs]])
    S(r"^(std::fs::)?rename::<", pathop("rename", 2))
    S(r"^(std::fs::)?remove_file::<", pathop("remove_file"))
    S(r"^(std::os::unix::fs::)?symlink::<", pathop("symlink", 2))
    S(r"^(std::fs::)?create_dir_all::<", pathop("create_dir_all"))

    def s_exists(name):
        def h(eng, st, callee, args, dty):
            p = path_id(eng, st, args[0])
            pn = getattr(p, "name", repr(p))
            tied = st.ghost.setdefault("fs_tied", set())
            if pn not in tied:
                tied.add(pn)
                st.pc += fs_axioms(pn)
            a = fs_fact(name, pn)
            outs = [Outcome(BoolV(a), events=[Event("Path::" + name, [p], BoolV(a))])]
            # std's exists()/is_dir()/is_file() answer `false` when the stat itself fails: one such failure per path is explored,
            # so that a decision resting on it ("nothing there": overwrite, skip the backup, skip the identity check) shows up
            if env.may_fail("Path::" + name) and not st.ghost.get("stat_swallowed"):
                def eff(eng, s2, a2):
                    s2.ghost["stat_swallowed"] = True
                outs.append(Outcome(BoolV(False), events=[Event("Path::" + name, [p], "stat-failed")], effect=eff))
            return outs
        return h
    for nm in ("exists", "is_dir", "is_file", "is_symlink"):
        S(r"^(std::path::)?Path::%s$" % nm, s_exists(nm))

    # stat/lstat of a path: succeeds iff the path resolves (stat) / the entry exists (lstat); kind questions on the
    # result are the same facts Path::is_file & co. ask about, so an edit that switches probes is compared like for like
    def s_pmeta(follow):
        def h(eng, st, callee, args, dty):
            p = path_id(eng, st, args[0])
            pn = getattr(p, "name", repr(p))
            tied = st.ghost.setdefault("fs_tied", set())
            if pn not in tied:
                tied.add(pn)
                st.pc += fs_axioms(pn)
            there = fs_fact("exists" if follow else "lexists", pn)
            m = OpaqueV("std::fs::Metadata", "%s_of_%s" % ("stat" if follow else "lstat", re.sub(r"\W+", "_", pn)), {"path": pn, "follow": follow})
            nm = "metadata" if follow else "symlink_metadata"
            ioerr = lambda kind: AggV("Result", 1, [OpaqueV("std::io::Error", "%s_error_%s_%d" % (nm, kind, next(eng.fresh_ids)), {"kind": kind})], "Err")
            # ENOENT exactly when there is nothing to stat; any other failure may strike regardless
            outs = [Outcome(ok(m), [there], events=[Event("Path::" + nm, [p], "ok")]),
                    Outcome(ioerr("NotFound"), [z3.Not(there)], events=[Event("Path::" + nm, [p], "absent")])]
            if env.may_fail("Path::" + nm):
                outs.append(Outcome(ioerr("Other"), events=[Event("Path::" + nm, [p], "err")]))
            return outs
        return h
    S(r"^(std::path::)?Path::metadata$|^(std::fs::)?metadata::<", s_pmeta(True))
    S(r"^(std::path::)?Path::symlink_metadata$|^(std::fs::)?symlink_metadata::<", s_pmeta(False))

    def s_mkind(q):
        def h(eng, st, callee, args, dty):
            m = deref_ref(eng, st, args[0])
            if not (isinstance(m, OpaqueV) and "path" in m.attrs):
                nm = getattr(m, "name", None) or "m%d" % next(eng.fresh_ids)
                return Outcome(BoolV(z3.Bool("%s_%s" % (q, re.sub(r"\W+", "_", str(nm))))))
            pn, follow = m.attrs["path"], m.attrs["follow"]
            link = fs_fact("is_symlink", pn)
            if q == "is_symlink":
                return Outcome(BoolV(z3.BoolVal(False) if follow else link))
            f = fs_fact(q, pn)
            return Outcome(BoolV(f if follow else z3.And(f, z3.Not(link))))
        return h
    for q in ("is_file", "is_dir", "is_symlink"):
        S(r"^(std::fs::)?(Metadata|FileType)::%s$" % q, s_mkind(q))
    S(r"^(std::fs::)?Metadata::file_type$", lambda e, st, c, a, d: Outcome(deref_ref(e, st, a[0])))

    def s_try_exists(eng, st, callee, args, dty):
        p = path_id(eng, st, args[0])
        pn = getattr(p, "name", repr(p))
        return [Outcome(ok(BoolV(fs_fact("exists", pn))), events=[Event("Path::try_exists", [p], "ok")]),
                Outcome(err("std::io::Error"), events=[Event("Path::try_exists", [p], "err")])]
    S(r"^(std::path::)?Path::try_exists$", s_try_exists)
    return env
