"""ChannelUpdater::send: batching of Copied updates (C12)."""
import z3

from props.common import *
from props.env import install_env


def lemma_channel_updater(ctx):
    eng = ctx.engine("libxcp", loop_bound=2)
    install_env(ctx, eng)

    def s_fetch_add(eng, st, callee, args, dty):
        prev = eng.fresh_int(st, "u64", "prev_sent")
        return Outcome(prev, events=[Event("fetch_add", [args[1]], prev)])
    eng.add_summary(r"^(std::sync::atomic::)?Atomic(U64)?(::<u64>)?::fetch_add$", s_fetch_add)

    def s_chan_send(eng, st, callee, args, dty):
        return [Outcome(ok(), events=[Event("chan_send", [args[1]], "ok")]),
                Outcome(err("SendError"), events=[Event("chan_send", [args[1]], "err")])]
    eng.add_summary(r"^crossbeam_channel::Sender::<StatusUpdate>::send$", s_chan_send)
    fn = fn_named(eng.funcs, "<ChannelUpdater as StatusUpdater>::send")
    kinds = set()
    for vname in ("Copied", "Size", "Error"):
        st = State()
        cfg, cv = mk_config(ctx, eng, st)
        cu = OpaqueV("feedback::ChannelUpdater", "updater")
        cu.attrs[("f", None, ctx.field("ChannelUpdater", "config"))] = mk_arc(cfg, "Arc<config::Config>", "cfg_arc", rc=2)
        n = eng.fresh_int(st, "u64", "n")
        payload = n if vname != "Error" else OpaqueV("XcpError", "xerr")
        upd = AggV("StatusUpdate", eng.variant_index("StatusUpdate", vname), [payload], vname)
        paths = eng.run(fn.name, [RefV(Cell(cu)), upd], st)
        ctx.paths += len(paths)
        bs = cv["block_size"].t
        for p in paths:
            names = trace_names(p)
            sent = [e for e in p.trace if e.name == "chan_send"]
            fa = [e for e in p.trace if e.name == "fetch_add"]
            if p.status == "panic":
                # only arithmetic the statement allows: block_size == 0 (excluded by C01's range) or a 2^64 byte total
                if vname == "Copied" and fa:
                    ctx.lemma(eng, "C12: send() panics only for block_size == 0 or a running total beyond u64", p.pc,
                              z3.Or(bs == 0, fa[0].ret.t + n.t > (1 << 64) - 1), info={"msg": p.msg})
                else:
                    ctx.fail("C12: send() never panics for Size/Error updates", p.msg)
                continue
            if p.status != "return":
                ctx.fail("ChannelUpdater::send: path ends in return", "%s %s" % (p.status, p.msg))
                continue
            for e in sent:
                u = e.args[0]
                if not (isinstance(u, AggV) and u.vname == vname):
                    ctx.fail("C12: the update forwarded to the client is the one that was sent", repr(u))
                elif vname != "Error":
                    ctx.lemma(eng, "C12: a forwarded update carries exactly the reported byte count", p.pc, u.fields[0].t == n.t)
            if len(sent) > 1:
                ctx.fail("C12: an update is forwarded at most once", str(names))
            if any(is_errev(e) for e in sent):
                (ctx.passed if is_err(p.ret) else ctx.fail)("C12/C04: a closed client channel makes send() fail", str(names))
                continue
            if vname == "Copied":
                if len(fa) != 1:
                    ctx.fail("C12: every Copied update is added to the running total exactly once", str(names))
                    continue
                ctx.lemma(eng, "C12: the running total is advanced by exactly the reported bytes", p.pc, fa[0].args[0].t == n.t)
                prev = fa[0].ret.t
                crossed = (prev + n.t) / bs > prev / bs
                if sent:
                    kinds.add("forwarded")
                    ctx.lemma(eng, "C12: a Copied update is forwarded only when the total crosses a block boundary", p.pc, crossed)
                else:
                    kinds.add("batched")
                    ctx.lemma(eng, "C12: a Copied update is withheld only while the total stays inside one block", p.pc, z3.Not(crossed))
            else:
                (ctx.passed if len(sent) == 1 else ctx.fail)("C12: Size and Error updates are always forwarded", str(names))
                kinds.add(vname)
    for k in ("forwarded", "batched", "Size", "Error"):
        (ctx.passed if k in kinds else ctx.fail)("witness: %s path" % k, str(sorted(kinds)))
    ctx.bounds = "loop-free; any running total, byte count and block size (64-bit)"
