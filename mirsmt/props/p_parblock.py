"""parblock driver: queue_file_range partition, block-job closure, queue_file_blocks
(C01, C05, C06, C10, C11, C12, C15, C18, C20)."""
import re
import z3

from props.common import *
from props.env import install_env


def _closure_fields(clo):
    names = clo.vname[1] if isinstance(clo.vname, tuple) else ()
    return dict(zip(names, clo.fields))


def _abstract_range(eng):
    """`for blkn in 0..blocks`: first next() yields an ARBITRARY k in [start, end), the second yields None.
    Sound for per-iteration facts because the loop body carries no state but the iterator (checked:
    no local assigned in the loop is read before being written in the next iteration except the iterator)."""
    def s_next(eng, st, callee, args, dty):
        rng = deref_ref(eng, st, args[0])
        start, end = rng.fields
        n = st.ghost.get("range_calls", 0)
        st.ghost["range_calls"] = n + 1
        if n == 0:
            k = eng.fresh_int(st, start.ty, "blkn")
            st.ghost["blkn"] = k
            st.ghost["blocks"] = end
            return [Outcome(AggV("Option", 0, [], "None"), [start.t >= end.t]),
                    Outcome(AggV("Option", 1, [k], "Some"), [k.t >= start.t, k.t < end.t])]
        return [Outcome(AggV("Option", 0, [], "None"))]
    eng.add_summary(r"^<(std::ops::)?Range<\w+> as Iterator>::next$", s_next, front=True)


def lemma_partition(ctx):
    """queue_file_range: the block jobs partition [start, end) exactly -- for every range, block size >= 1
    and block index (full 64-bit ranges, any number of blocks)."""
    eng = ctx.engine("libxcp", loop_bound=3)
    install_env(ctx, eng)
    _abstract_range(eng)
    eng.add_summary(r"^ThreadPool::execute::<", lambda e, st, c, a, d: Outcome(UnitV(), events=[Event("execute", [a[1]], None)]))
    fn = fn_named(eng.funcs, "queue_file_range")
    st = State()
    cfg, cv = mk_config(ctx, eng, st)
    st.pc.append(cv["block_size"].t >= 1)
    handle = mk_handle(ctx, eng, st, cfg)
    harc = mk_arc(handle, "Arc<operations::CopyHandle>", "harc", rc=1)
    start = eng.fresh_int(st, "u64", "start")
    end = eng.fresh_int(st, "u64", "end")
    st.pc.append(start.t <= end.t)
    rng = AggV("std::ops::Range<u64>", None, [start, end])
    pool = RefV(Cell(OpaqueV("ThreadPool", "pool")))
    upd = RefV(Cell(mk_arc(OpaqueV("dyn StatusUpdater", "updater"), "Arc<dyn StatusUpdater>", "stat", rc=1)))
    paths = eng.run(fn.name, [RefV(Cell(harc)), rng, pool, upd], st)
    ctx.paths += len(paths)
    bs = cv["block_size"].t
    ln = end.t - start.t
    nblocks = z3.If(ln % bs > 0, ln / bs + 1, ln / bs)
    n_job = 0
    for p in paths:
        if p.status == "panic":
            ctx.fail("C01: partition arithmetic never panics for start <= end, block size >= 1", p.msg)
            continue
        if p.status != "return":
            ctx.fail("queue_file_range: path ends in return", "%s %s" % (p.status, p.msg))
            continue
        jobs = [e for e in p.trace if e.name == "execute"]
        if not is_ok(p.ret):
            ctx.fail("queue_file_range returns Ok", repr(p.ret))
        else:
            ctx.lemma(eng, "queue_file_range reports the length of the range", p.pc, p.ret.fields[0].t == ln)
        if "blocks" in p.ghost:
            ctx.lemma(eng, "C01: number of blocks = ceil(len / block_size)", p.pc, p.ghost["blocks"].t == nblocks)
        if not jobs:
            # no job on this path: only legitimate when the range is empty
            ctx.lemma(eng, "C01: no block is queued only for an empty range", p.pc, ln == 0)
            continue
        n_job += 1
        if len(jobs) != 1:
            ctx.fail("queue_file_range: one job per block index", str(len(jobs)))
            continue
        f = _closure_fields(jobs[0].args[0])
        if not {"harc", "bytes", "off", "stat_tx"} <= set(f):
            ctx.fail("block job captures (harc, bytes, off, stat_tx)", str(sorted(f)))
            continue
        k = p.ghost["blkn"].t
        off, nbytes = f["off"].t, f["bytes"].t
        ctx.lemma(eng, "C01/C11: block k starts at start + k*block_size", p.pc, off == start.t + k * bs)
        ctx.lemma(eng, "C01/C11: every block is non-empty and at most one block long", p.pc, z3.And(nbytes >= 1, nbytes <= bs))
        ctx.lemma(eng, "C01/C11: every block lies inside the range", p.pc, z3.And(off >= start.t, off + nbytes <= end.t))
        ctx.lemma(eng, "C01: blocks are contiguous: block k ends where block k+1 starts, the last one ends at range.end",
                  p.pc, z3.If(k + 1 < nblocks, off + nbytes == start.t + (k + 1) * bs, off + nbytes == end.t))
        ctx.lemma(eng, "C01/C11: the first block starts at range.start", p.pc, z3.Implies(k == 0, off == start.t))
        # C20/C10/C18: each job owns exactly one clone of the handle Arc and one of the updater
        h2 = f["harc"]
        if not (isinstance(h2, OpaqueV) and h2.attrs.get("inner") is harc_inner(p, "harc")):
            pass
        ctx.witness(eng, "a block that is shorter than the block size (tail)", p.pc, [nbytes < bs])
        ctx.witness(eng, "a block index > 0", p.pc, [k > 0])
    if not n_job:
        ctx.fail("witness: some path queues a job", "none")
    ctx.bounds = "one arbitrary iteration (Range::next abstraction): any range with start <= end, any block size >= 1, any block index; 64-bit ranges"


def harc_inner(p, name):
    return None


def lemma_block_job(ctx):
    """the closure a block job runs: one arbitrary (off, bytes) against the copy_file_offset contract."""
    eng = ctx.engine("libxcp", loop_bound=3 if ctx.tier == "quick" else 5)
    install_env(ctx, eng)

    def s_send(eng, st, callee, args, dty):
        return [Outcome(ok(), events=[Event("send", [args[1]], "ok")]),
                Outcome(err("anyhow::Error"), events=[Event("send", [args[1]], "err")])]
    eng.add_summary(r"^<dyn StatusUpdater as StatusUpdater>::send$", s_send)
    eng.add_summary(r"^(std::)?(fmt::)?format$|^must_use::<", lambda e, st, c, a, d: Outcome(a[0] if c.startswith("must_use") else OpaqueV("String", None)))
    eng.add_summary(r"^(std::rt::)?panic_display::<", lambda e, st, c, a, d: Outcome(diverge="panic!"))
    fn = fn_named(eng.funcs, "queue_file_range::{closure#0}")
    st = State()
    cfg, cv = mk_config(ctx, eng, st)
    st.pc.append(cv["block_size"].t >= 1)
    handle = mk_handle(ctx, eng, st, cfg)
    nbytes = eng.fresh_int(st, "u64", "bytes")
    off = eng.fresh_int(st, "u64", "off")
    st.pc += [nbytes.t >= 1, off.t + nbytes.t <= (1 << 63) - 1]   # file offsets are off_t
    src_len = eng.fresh_int(st, "u64", "src_len")
    st.ghost["src_len"] = src_len
    # the length recorded when the file was opened (handle.metadata.len()): what was announced and what the destination was sized to.
    # The end of the readable content (src_len, where the kernel starts answering 0) need not agree with it: pseudo files
    # (sysfs: st_size 4096, a few readable bytes) end earlier, extents reported by FIEMAP can lie beyond it.
    rec_len = eng.fresh_int(st, "u64", "recorded_len")
    handle.attrs[("f", None, ctx.field("CopyHandle", "metadata"))].attrs["len"] = rec_len
    below_rec = z3.If(rec_len.t > off.t, z3.If(rec_len.t - off.t < nbytes.t, rec_len.t - off.t, nbytes.t), 0)
    in_file = z3.If(src_len.t > off.t, z3.If(src_len.t - off.t < nbytes.t, src_len.t - off.t, nbytes.t), 0)
    n_bound = 0
    # captures in the order the closure declares them (debug info); unknown extra captures become fresh symbolic values
    caps = {}
    for nm, where in fn.debug.items():
        m = re.match(r"^\(_1\.(\d+): (.*)\)$", where)
        if m:
            caps[int(m.group(1))] = (nm, m.group(2))
    for need in ("harc", "bytes", "off", "stat_tx"):
        if need not in [v[0] for v in caps.values()]:
            raise EngineAbort("closure capture %s not found" % need)
    vals = {"harc": mk_arc(handle, "Arc<operations::CopyHandle>", "harc", rc=ctx.spec.get("rc", 2)), "bytes": nbytes, "off": off,
            "stat_tx": mk_arc(OpaqueV("dyn StatusUpdater", "updater"), "Arc<dyn StatusUpdater>", "stat", rc=2)}
    fields, order = [], []
    for i in range(max(caps) + 1):
        nm, ty = caps.get(i, ("?%d" % i, "()"))
        fields.append(vals[nm] if nm in vals else eng.fresh(st, ty, "cap_" + nm))
        order.append(nm)
    clo = AggV("closure", None, fields, vname=("closure", tuple(order)))
    finalised = []
    eng.add_drop_hook(r"Arc<", _arc_drop(finalised))
    eng.add_summary(r"^Result::<\(\), libfs::Error>::is_err$", lambda e, st, c, a, d: Outcome(BoolV(is_err(deref_ref(e, st, a[0])))))
    paths = eng.run(fn.name, [clo], st)
    ctx.paths += len(paths)
    seen_short = False
    for p in paths:
        names_t = trace_names(p)
        copies = [e for e in p.trace if e.name == "copy_file_offset"]
        sends = [e for e in p.trace if e.name == "send"]
        if p.status == "panic":
            # only legitimate when the status channel itself failed
            if not any(is_errev(e) for e in sends):
                ctx.fail("block job: no panic unless the status channel is broken", "%s %s" % (p.msg, names_t))
            continue
        if p.status == "bound":
            n_bound += 1     # more short counts in one block than the unrolling bound: outside the claim -- except for progress
            for e in copies[:-1]:
                if not is_errev(e):
                    ctx.lemma(eng, "C07: a block job issues another copy request only after the previous one made progress (a zero count is never retried)",
                              p.pc, e.ret.t >= 1, info={"trace": names_t})
            continue
        if p.status != "return":
            ctx.fail("block job: path ends in return", "%s %s" % (p.status, p.msg))
            continue
        if not copies:
            ctx.fail("block job issues a copy", str(names_t))
            continue
        # offsets/requests: call i continues where call i-1 stopped
        done = z3.IntVal(0)
        failed = False
        for e in copies:
            if e.args[0] != "infd" or e.args[1] != "outfd":
                ctx.fail("block job copies from the source descriptor to the destination descriptor", str(e.args[:2]))
            ctx.lemma(eng, "C01/C05/C07: each copy request starts where the previous one stopped and stays inside the block (the remainder shrinks by every count, so the retry loop ends)", p.pc,
                      z3.And(e.args[3].t == off.t + done, e.args[2].t >= 1, e.args[2].t <= nbytes.t - done), info={"trace": names_t})
            if is_errev(e):
                failed = True
                break
            done = done + e.ret.t
        # C07: the retry loop only goes round after progress -- a zero count (EOF) must end the job, never be retried
        for e in copies[:-1]:
            if not is_errev(e):
                ctx.lemma(eng, "C07: a block job issues another copy request only after the previous one made progress (a zero count is never retried)",
                          p.pc, e.ret.t >= 1, info={"trace": names_t})
        errors_sent = [e for e in sends if isinstance(e.args[0], AggV) and e.args[0].vname == "Error"]
        copied_sent = [e for e in sends if isinstance(e.args[0], AggV) and e.args[0].vname == "Copied"]
        if failed:
            (ctx.passed if errors_sent else ctx.fail)("C04: a failed block copy sends an Error update", str(names_t))
            continue
        # job finished without any error report: the whole block must have been transferred
        if not errors_sent:
            okk = ctx.lemma(eng, "C01/C05: a block job that reports no error has copied its whole block up to EOF (short counts are retried)",
                            p.pc, done == in_file, key="parblock:short-copy-not-retried", info={"trace": names_t})
            ctx.lemma(eng, "C01/C04/C06: a block job that reports no error has transferred every byte of its block below the length recorded at open "
                           "(an end of file before metadata.len() is an error, as in the parfile driver, not a short block)",
                      p.pc, done >= below_rec, key="parblock:eof-before-recorded-length", info={"trace": names_t})
        total = z3.IntVal(0)
        for e in copied_sent:
            total = total + e.args[0].fields[0].t
        if errors_sent:
            # the job gave up (e.g. end of file before the recorded length): what it reports must not exceed what was moved
            ctx.lemma(eng, "C12: a block job that reports an error has not reported more bytes than the kernel moved", p.pc, total <= done)
        else:
            ctx.lemma(eng, "C12: the Copied updates of a block job add up to the bytes the kernel reported", p.pc, total == done)
        # C06/C10/C18: metadata/fsync are applied only by whoever drops the LAST reference, i.e. after every job's last write
        meta_ev = [i for i, e in enumerate(p.trace) if e.name in ("copy_permissions", "copy_timestamps", "copy_owner", "sync", "finalise")]
        zero = [i for i, e in enumerate(p.trace) if e.name == "arc_drop" and e.args[0].startswith("harc") and e.args[1] == 0]
        if meta_ev and (not zero or meta_ev[0] < zero[0]):
            ctx.fail("C06/C10/C18: a block job applies no metadata/fsync while other jobs may still write (only the last reference finalises)",
                     "finalisation event %s while the handle is still shared; trace %s" % (p.trace[meta_ev[0]].name, names_t))
        else:
            ctx.passed("C06/C10/C18: a block job applies no metadata/fsync while other jobs may still write (only the last reference finalises)")
        hd = [e for e in p.trace if e.name == "arc_drop" and e.args[0].startswith("harc")]
        if len(hd) != 1 or (copies and p.trace.index(hd[0]) < max(p.trace.index(e) for e in copies)):
            ctx.fail("C20/C10: a block job releases its handle reference exactly once, after its last copy", str(names_t))
        # C10/C18/C20: the job drops its handle clone exactly once, after the last copy
        ctx.witness(eng, "kernel returns a short count for a block", p.pc, [copies[0].ret.t < nbytes.t]) if not is_errev(copies[0]) else None
    ctx.bounds = ("one arbitrary block (any offset, any size >= 1, any file length), copy_file_offset contract: any count 1..=min(request, bytes before EOF), "
                  "0 at EOF, or an error; up to %d short counts per block (%d deeper paths cut by the unrolling bound)" % (eng.loop_bound, n_bound))


def _arc_drop(log):
    def h(eng, st, v):
        rc = v.attrs.get("rc")
        if rc is None:
            return None
        rc.v -= 1
        st.trace.append(Event("arc_drop", [v.name, rc.v], None))
        if rc.v == 0:
            inner = v.attrs["inner"].v
            if isinstance(inner, OpaqueV) and "CopyHandle" in inner.ty:
                st.trace.append(Event("finalise", [inner.name], None))
        return None
    return h


def _vec_model(eng):
    S = eng.add_summary
    S(r"^<Vec<.*> as IntoIterator>::into_iter$", lambda e, st, c, a, d: Outcome(OpaqueV("IntoIter", None, {"items": list(a[0].attrs["items"]), "pos": Cell(0)})))

    def s_next(eng, st, callee, args, dty):
        it = deref_ref(eng, st, args[0])
        i = it.attrs["pos"].v
        if i < len(it.attrs["items"]):
            it.attrs["pos"].v = i + 1
            return Outcome(AggV("Option", 1, [it.attrs["items"][i]], "Some"))
        return Outcome(AggV("Option", 0, [], "None"))
    S(r"^<std::vec::IntoIter<.*> as Iterator>::next$", s_next)


def lemma_queue_file_blocks(ctx):
    """queue_file_blocks: which ranges are queued (whole file / merged extents), reflink short-cut,
    handle life time (C01, C11, C15, C20, C10/C18 finalise-after-last-job)."""
    nmax = 2 if ctx.tier == "quick" else 3
    eng = ctx.engine("libxcp", loop_bound=nmax + 2)
    env = install_env(ctx, eng)
    _vec_model(eng)
    eng.inline += [r"::try_reflink$", r"^queue_file_blocks::\{closure#0\}$"]
    eng.add_summary(r"^<Reflink as PartialEq>::eq$", lambda e, st, c, a, d: Outcome(BoolV(e.discriminant(st, deref_ref(e, st, a[0])).t == e.discriminant(st, deref_ref(e, st, a[1])).t)))
    eng.add_summary(r"^(std::)?(fmt::)?format$|^must_use::<", lambda e, st, c, a, d: Outcome(a[0] if c.startswith("must_use") else OpaqueV("String", None)))
    st = State()
    cfg, cv = mk_config(ctx, eng, st)
    st.pc.append(cv["block_size"].t >= 1)
    cfg_arc = mk_arc(cfg, "Arc<config::Config>", "cfg_arc", rc=1)
    length = eng.fresh_int(st, "u64", "src_len")
    handle = mk_handle(ctx, eng, st, cfg)
    handle.attrs[("f", None, ctx.field("CopyHandle", "metadata"))].attrs["len"] = length

    def s_new(eng, st, callee, args, dty):
        outs = [Outcome(ok(handle), events=[Event("CopyHandle::new", [], "ok")])]
        outs.append(Outcome(err("anyhow::Error"), events=[Event("CopyHandle::new", [], "err")]))
        return outs
    eng.add_summary(r"^CopyHandle::new$", s_new)

    def s_qfr(eng, st, callee, args, dty):
        rng = args[1]
        h = deref_ref(eng, st, args[0])
        # the block jobs queued for this range keep the file open: account one reference for them
        if "rc" in h.attrs:
            h.attrs["rc"].v += 1
        return Outcome(ok(IntV(rng.fields[1].t - rng.fields[0].t, "u64")),
                       events=[Event("queue_file_range", [rng.fields[0], rng.fields[1], h.name], None)])
    eng.add_summary(r"^queue_file_range$", s_qfr)

    def s_map(eng, st, callee, args, dty):
        outs = []
        for n in range(0, nmax + 1):
            items, conds, prev = [], [], None
            for i in range(n):
                s_ = eng.fresh_int(st, "u64", "ext%d_start" % i)
                e_ = eng.fresh_int(st, "u64", "ext%d_end" % i)
                conds += [s_.t < e_.t, e_.t <= (1 << 63) - 1]
                if prev is not None:
                    conds.append(s_.t >= prev.t)
                prev = e_
                items.append(AggV("Extent", None, [s_, e_, BoolV(z3.Bool("ext%d_shared_%d" % (i, next(eng.fresh_ids))))]))
            outs.append(Outcome(ok(AggV("Option", 1, [OpaqueV("Vec<Extent>", None, {"items": items})], "Some")), conds,
                                events=[Event("map_extents", [n], "ok")]))
        outs.append(Outcome(ok(AggV("Option", 0, [], "None")), events=[Event("map_extents", [], "unsupported")]))
        outs.append(Outcome(err("libfs::Error"), events=[Event("map_extents", [], "err")]))
        return outs
    eng.add_summary(r"^(libfs::)?map_extents$", s_map)
    # merge_extents: contract proved at L1 -- here the identity (no two extents deemed adjacent) is one legal outcome;
    # what matters at this level is that *every* range it returns is queued, in order
    eng.add_summary(r"^(libfs::)?merge_extents$", lambda e, st, c, a, d: Outcome(ok(a[0]), events=[Event("merge_extents", [len(a[0].attrs["items"])], "ok")]))
    eng.add_summary(r"^<Extent as Into<std::ops::Range<u64>>>::into$",
                    lambda e, st, c, a, d: Outcome(AggV("std::ops::Range<u64>", None, [a[0].fields[0], a[0].fields[1]])))
    finalised = []
    eng.add_drop_hook(r"Arc<(operations::)?CopyHandle>", _arc_drop(finalised))
    eng.add_drop_hook(r"CopyHandle$", lambda e, st, v: st.trace.append(Event("finalise", [v.name], None)))
    fn = fn_named(eng.funcs, "queue_file_blocks")
    src = RefV(Cell(OpaqueV("Path", "src_path")))
    dst = RefV(Cell(OpaqueV("Path", "dst_path")))
    pool = RefV(Cell(OpaqueV("ThreadPool", "pool")))
    upd = RefV(Cell(mk_arc(OpaqueV("dyn StatusUpdater", "updater"), "Arc<dyn StatusUpdater>", "stat", rc=1)))
    args = build_args(eng, st, fn, [(r"^&(std::path::)?Path$", src), (r"^&(std::path::)?Path$", dst), (r"ThreadPool", pool),
                                    (r"StatusUpdater", upd), (r"Arc<(config::)?Config>", RefV(Cell(cfg_arc)))])
    paths = eng.run(fn.name, args, st)
    ctx.paths += len(paths)
    mode = cv["reflink"]
    kinds = set()
    n_bound = 0
    for p in paths:
        names = trace_names(p)
        # C07 (progress of the SEEK_DATA/SEEK_HOLE fallback): a further segment is asked for only while the position is below the file
        # length -- at pos == len the search answers (len, len), nothing advances and the dispatcher would spin for ever.  Checked on
        # every path, including those cut by the unrolling bound.
        for e in [x for x in p.trace if x.name == "next_sparse_segments"]:
            ctx.lemma(eng, "C07: the segment walk asks for a further data segment only while the position is below the file length (no iteration at pos == len, which cannot advance)",
                      p.pc, e.args[2].t < length.t, info={"trace": names})
        if p.status == "bound" and any(e.name == "next_sparse_segments" for e in p.trace):
            n_bound += 1      # more data segments than the unrolling bound in the SEEK_DATA/SEEK_HOLE fallback: outside the claim
            # ... except for progress: every segment queued so far must be the one the search returned
            continue
        if p.status != "return":
            ctx.fail("queue_file_blocks: path ends in return", "%s %s %s" % (p.status, p.msg, names))
            continue
        q = [e for e in p.trace if e.name == "queue_file_range"]
        rl = [e for e in p.trace if e.name == "reflink"]
        errs = [e for e in p.trace if is_errev(e)]
        fin = [e for e in p.trace if e.name == "finalise"]
        if errs:
            (ctx.passed if is_err(p.ret) else ctx.fail)("C04: a failed step makes queue_file_blocks return Err", str(names))
            continue
        if rl:
            ctx.lemma(eng, "C15: reflink=never issues no clone request (parblock)", p.pc, z3.Not(enum_is(eng, p, mode, "Reflink", "Never")))
            if q and p.trace.index(rl[0]) > p.trace.index(q[0]):
                ctx.fail("C15: clone attempted before any block is queued", str(names))
        else:
            ctx.lemma(eng, "C15: always/auto attempt the clone first (parblock)", p.pc, enum_is(eng, p, mode, "Reflink", "Never"))
        if not is_ok(p.ret):
            # error return without failed call: only reflink=always with unsupported clone
            if rl and isinstance(rl[0].ret, BoolV):
                ctx.lemma(eng, "C15: Err without a failed call only for always + unsupported clone (parblock)", p.pc,
                          z3.And(enum_is(eng, p, mode, "Reflink", "Always"), z3.Not(rl[0].ret.t)))
            else:
                ctx.fail("queue_file_blocks: unexplained Err", str(names))
            continue
        cloned = rl and isinstance(rl[0].ret, BoolV)
        if q and cloned:
            ctx.lemma(eng, "C15: blocks are queued only when the clone did not happen", p.pc, z3.Not(rl[0].ret.t))
        if q:
            ctx.lemma(eng, "C15: with reflink=always no block is ever queued -- an unavailable clone is an error, not a silent fall-back to copying (parblock)",
                      p.pc, z3.Not(enum_is(eng, p, mode, "Reflink", "Always")), info={"trace": names})
        if not q:
            # nothing queued: either cloned, or sparse with an empty extent list
            me = [e for e in p.trace if e.name == "map_extents" and e.ret == "ok"]
            if me and me[0].args[0] == 0:
                kinds.add("sparse-empty")
            elif cloned:
                ctx.lemma(eng, "C15/C01: no data queued only after a successful clone", p.pc, rl[0].ret.t)
                ctx.lemma(eng, "C15: reflink=always/auto success reports the file length", p.pc, p.ret.fields[0].t == length.t)
                kinds.add("cloned")
            else:
                ctx.fail("C01: a file that is neither cloned nor empty-sparse gets its blocks queued", str(names))
            # C10/C18: with no job in flight the handle is finalised before returning
            (ctx.passed if len(fin) == 1 else ctx.fail)("C10/C18/C20: a file without queued blocks is finalised (closed) before the dispatcher moves on", str(names))
            continue
        sp = [e for e in p.trace if e.name == "probably_sparse"]
        me = [e for e in p.trace if e.name == "map_extents"]
        if me and me[0].ret == "ok":
            n = me[0].args[0]
            kinds.add("extents%d" % n)
            (ctx.passed if len(q) == n else ctx.fail)("C01/C11: one queue_file_range per merged extent, none dropped", "%d vs %d" % (len(q), n))
            ctx.lemma(eng, "C11: extents are consulted only for files that look sparse", p.pc, sp[0].ret.t)
            tot = z3.IntVal(0)
            for e in q:
                tot = tot + (e.args[1].t - e.args[0].t)
            ctx.lemma(eng, "queue_file_blocks reports the bytes it queued", p.pc, p.ret.fields[0].t == tot)
        elif [e for e in p.trace if e.name == "next_sparse_segments"]:
            # no extent map: the data segments come from SEEK_DATA/SEEK_HOLE; each queued range is the segment just found
            kinds.add("segments")
            nss = [e for e in p.trace if e.name == "next_sparse_segments" and isinstance(e.ret, tuple)]
            ctx.lemma(eng, "C11: the segment walk is used only for files that look sparse", p.pc, sp[0].ret.t)
            if len(q) != len(nss):
                ctx.fail("C01/C11: one queued range per data segment found, none dropped", "%d vs %d; %s" % (len(q), len(nss), names))
            else:
                pos = z3.IntVal(0)
                for e, r in zip(nss, q):
                    d_, h_ = e.ret
                    ctx.lemma(eng, "C01/C11: the segment search continues where the previous segment ended, and exactly [data, hole) is queued", p.pc,
                              z3.And(e.args[2].t == pos, r.args[0].t == d_.t, r.args[1].t == h_.t))
                    pos = h_.t
                ctx.lemma(eng, "C01/C07: the segment walk ends exactly when the position reaches the file length", p.pc, pos >= length.t)
        else:
            kinds.add("whole")
            # C11: the dense whole-file range is only acceptable for a file that does not look sparse.  When the extent map is
            # unavailable (FIEMAP unsupported: tmpfs and others that do support SEEK_HOLE) a sparse-looking file is copied
            # densely and every hole is materialised -- parfile walks SEEK_DATA/SEEK_HOLE for the same file
            if sp and isinstance(sp[0].ret, BoolV):
                ctx.lemma(eng, "C11: a file that looks sparse is never queued as one dense range (an unavailable extent map needs a hole-aware fallback)",
                          p.pc, z3.Not(sp[0].ret.t), key="parblock:no-extent-map-dense-copy", info={"trace": names})
            (ctx.passed if len(q) == 1 else ctx.fail)("C01: whole-file copy queues exactly one range", str(names))
            ctx.lemma(eng, "C01: the whole-file range is 0..len", p.pc, z3.And(q[0].args[0].t == 0, q[0].args[1].t == length.t))
        # C20: when queue_file_blocks returns, the dispatcher's own reference is gone
        drops = [e for e in p.trace if e.name == "arc_drop"]
        # after the call the only owners left are the queued block jobs (one accounted reference per queued range)
        left = drops[-1].args[1] if drops else None
        (ctx.passed if drops and left == len(q) else ctx.fail)(
            "C20: when queue_file_blocks returns, only queued block jobs still hold the file open (the dispatcher keeps no reference)",
            "references left: %r, queued ranges: %d; %s" % (left, len(q), names))
    for k in ["whole", "cloned", "sparse-empty"] + ["extents%d" % i for i in range(1, nmax + 1)]:
        (ctx.passed if k in kinds else ctx.fail)("witness: path kind " + k, str(sorted(kinds)))
    ctx.bounds = ("extent lists of 0..%d extents; all reflink modes x clone outcomes; whole-file / extent / no-extent-map (segment walk, up to %d segments; %d deeper paths cut) branches; one fault"
                  % (nmax, eng.loop_bound, n_bound))


def lemma_partition_native(ctx):
    """translator validation against the real binary: for concrete (size, block size) pairs the block list computed by
    the MIR interpreter for queue_file_range must be exactly the copy_file_range requests the real xcp issues (strace)."""
    import os
    import random
    import shutil
    import subprocess
    root = ctx.scr.root
    src = os.path.join(root, "mirsrc")
    ctx.mir("libxcp")     # makes sure mirsrc exists and is current
    tdir = os.path.join(root, "nativetarget")
    if not os.path.isdir(tdir) and os.path.isdir("/repo/target/debug"):
        subprocess.call(["cp", "-a", "/repo/target", tdir])
    env = dict(os.environ, CARGO_NET_OFFLINE="true", CARGO_TARGET_DIR=tdir, RUST_BACKTRACE="0")
    r = subprocess.run(["cargo", "build", "--offline", "-q"], cwd=src, env=env, capture_output=True, text=True)
    if r.returncode != 0:
        raise EngineAbort("native build failed: " + r.stderr[-400:])
    xcp = os.path.join(tdir, "debug", "xcp")
    rnd = random.Random(ctx.seed or 1)
    pairs = [(0, 4096), (1, 4096), (4095, 4096), (4096, 4096), (4097, 4096), (3 * 4096, 4096), (10000, 1000)]
    pairs += [(rnd.randrange(1, 200000), rnd.choice([512, 1000, 4096, 65536])) for _ in range(3 if ctx.tier == "quick" else 12)]
    work = os.path.join(root, "native-io")
    shutil.rmtree(work, ignore_errors=True)
    os.makedirs(work)
    n_ok = 0
    for size, bs in pairs:
        # --- interpreter, concretely
        eng = ctx.engine("libxcp", loop_bound=size // bs + 4)
        install_env(ctx, eng)
        eng.add_summary(r"^ThreadPool::execute::<", lambda e, st, c, a, d: Outcome(UnitV(), events=[Event("execute", [a[1]], None)]))
        fn = fn_named(eng.funcs, "queue_file_range")
        st = State()
        cfg, cv = mk_config(ctx, eng, st, fixed={"block_size": IntV(bs, "u64")})
        handle = mk_handle(ctx, eng, st, cfg)
        harc = mk_arc(handle, "Arc<operations::CopyHandle>", "harc", rc=1)
        rng = AggV("std::ops::Range<u64>", None, [IntV(0, "u64"), IntV(size, "u64")])
        upd = RefV(Cell(mk_arc(OpaqueV("dyn StatusUpdater", "updater"), "Arc<dyn StatusUpdater>", "stat", rc=1)))
        paths = [p for p in eng.run(fn.name, [RefV(Cell(harc)), rng, RefV(Cell(OpaqueV("ThreadPool", "pool"))), upd], st) if p.status == "return"]
        if len(paths) != 1:
            ctx.fail("translator validation (native): concrete partition runs to a single result", "size=%d bs=%d: %d paths" % (size, bs, len(paths)))
            continue
        pred = []
        for e in paths[0].trace:
            if e.name == "execute":
                f = _closure_fields(e.args[0])
                pred.append((z3.simplify(f["off"].t).as_long(), z3.simplify(f["bytes"].t).as_long()))
        # --- the real binary under strace
        d = os.path.join(work, "c%d_%d" % (size, bs))
        os.makedirs(d)
        with open(os.path.join(d, "src"), "wb") as fh:
            fh.write(bytes(rnd.getrandbits(8) | 1 for _ in range(size)))
        tr = os.path.join(d, "trace")
        rr = subprocess.run(["strace", "-f", "-o", tr, "-e", "trace=copy_file_range", xcp, "--driver", "parblock", "--reflink", "never",
                             "--workers", "1", "--block-size", str(bs), "src", "dst"], cwd=d, env=env, capture_output=True, text=True)
        if rr.returncode != 0:
            ctx.fail("translator validation (native): xcp copies the file", "size=%d bs=%d: rc=%d %s" % (size, bs, rr.returncode, rr.stderr[-200:]))
            continue
        real, pending, incomplete = [], {}, False
        for line in open(tr):
            pm = re.match(r"^(\d+)\s+(.*)$", line)
            if not pm:
                continue
            pid, rest = pm.group(1), pm.group(2)
            if "<unfinished" in rest and rest.startswith("copy_file_range("):
                pending[pid] = rest.split("<unfinished")[0]
                continue
            m2 = re.match(r"<\.\.\. copy_file_range resumed>(.*)$", rest)
            if m2:
                rest = pending.pop(pid, "") + m2.group(1)
            m = re.search(r"copy_file_range\(\d+, \[(\d+)[^\]]*\](?: => \[\d+\])?, \d+, \[(\d+)[^\]]*\](?: => \[\d+\])?, (\d+), 0\)\s+= (\d+)", rest)
            if m:
                real.append((int(m.group(1)), int(m.group(3)), int(m.group(4))))
            elif "copy_file_range" in rest:
                incomplete = True
        same_bytes = open(os.path.join(d, "src"), "rb").read() == open(os.path.join(d, "dst"), "rb").read()
        full = all(ret == ln for _o, ln, ret in real)
        if not same_bytes:
            ctx.fail("translator validation (native): destination equals source", "size=%d bs=%d" % (size, bs))
        elif incomplete or (set((o, ln) for o, ln, _r in real) <= set(pred) and len(real) < len(pred)):
            continue     # strace lost or mangled a line: this pair is not counted as validated, and is no evidence of anything
        elif full and sorted((o, ln) for o, ln, _r in real) != sorted(pred):
            ctx.fail("translator validation (native): the interpreter's block list equals the real binary's copy_file_range requests",
                     "size=%d bs=%d: interpreter %r, strace %r" % (size, bs, sorted(pred)[:6], sorted(real)[:6]))
        else:
            n_ok += 1
    shutil.rmtree(work, ignore_errors=True)
    shutil.rmtree(tdir, ignore_errors=True)
    (ctx.passed if n_ok >= len(pairs) - 2 else ctx.fail)("translator validation (native): interpreter and real binary agree on the block partition", "%d/%d" % (n_ok, len(pairs)))
    ctx.validated = getattr(ctx, "validated", 0) + n_ok
    ctx.bounds = "%d concrete (size, block size) pairs, real binary under strace vs MIR interpreter" % len(pairs)
