"""parfile data path: CopyHandle::copy_bytes / copy_sparse / copy_file  (C01, C05, C07, C11, C12, C04, C15)."""
import z3

from props.common import *
from props.env import install_env
from props.cfg import loop_header


def _setup(ctx, eng, st, fixed=None):
    cfg, cv = mk_config(ctx, eng, st, fixed)
    st.pc.append(cv["block_size"].t >= 1)      # C01 quantifies over block sizes 1..usize::MAX
    handle = mk_handle(ctx, eng, st, cfg)
    upd = RefV(Cell(OpaqueV("Arc<dyn StatusUpdater>", "updates")))
    return cfg, cv, handle, upd


def _send_summary(eng):
    def s_send(eng, st, callee, args, dty):
        return [Outcome(ok(), events=[Event("send", [args[1]], "ok")]),
                Outcome(err("anyhow::Error"), events=[Event("send", [args[1]], "err")])]
    eng.add_summary(r"^<dyn StatusUpdater as StatusUpdater>::send$", s_send)


def lemma_copy_bytes(ctx):
    """One inductive step of the copy loop from an arbitrary state satisfying the invariant
    `written <= len`: holds for every length, block size >= 1 and every sequence of short counts."""
    eng = ctx.engine("libxcp", loop_bound=2)
    install_env(ctx, eng)
    _send_summary(eng)
    fn = fn_named(eng.funcs, "CopyHandle::copy_bytes")
    st = State()
    cfg, cv, handle, upd = _setup(ctx, eng, st)
    length = eng.fresh(st, "u64", "len")
    l_written = dbg_local(fn, "written")

    def inv(eng, s, fr):
        return fr.locals[l_written].v.t <= length.t
    spec = LoopSpec(fn, loop_header(fn), inv)
    install_loop(eng, spec)
    paths = eng.run(fn.name, [RefV(Cell(handle)), length, upd], st)
    ctx.paths += len(paths)
    _loop_obligations(ctx, spec, "copy_bytes invariant written<=len")
    n_iter = 0
    for p in paths:
        evs = list(p.trace)
        if p.status == "panic":
            ctx.fail("copy_bytes: no arithmetic panic", p.msg, info={"trace": trace_names(p)})
            continue
        if p.status == "bound":
            ctx.fail("copy_bytes: iteration explored within bound", p.msg)
            continue
        idx = [i for i, e in enumerate(evs) if e.name == "loop-havoc"]
        it = evs[idx[0] + 1:] if idx else evs
        w0 = evs[idx[0]].info["locals"][l_written] if idx else IntV(0, "u64")
        copies = [e for e in it if e.name == "copy_file_bytes"]
        sends = [e for e in it if e.name == "send"]
        for e in copies:
            n = e.args[2]
            ctx.lemma(eng, "copy_bytes: 1 <= request <= min(remaining, block)", p.pc,
                      z3.And(n.t >= 1, n.t <= cv["block_size"].t, n.t <= length.t - w0.t), info={"trace": trace_names(p)})
            if e.args[0] != "infd" or e.args[1] != "outfd":
                ctx.fail("copy_bytes: copies from the source descriptor to the destination descriptor", str(e.args[:2]))
        if p.status == "loop-back":
            n_iter += 1
            k = copies[0].ret
            fr = p.frames[-1]
            ctx.lemma(eng, "copy_bytes: an iteration adds exactly the kernel's count (k >= 1: progress, C07)", p.pc,
                      z3.And(k.t >= 1, fr.locals[l_written].v.t == w0.t + k.t))
            if len(sends) != 1 or len(copies) != 1:
                ctx.fail("copy_bytes: exactly one copy and one Copied update per iteration", str(trace_names(p)))
            else:
                u = sends[0].args[0]
                if not (isinstance(u, AggV) and u.vname == "Copied"):
                    ctx.fail("C12: update sent after a copy is Copied", repr(u))
                else:
                    ctx.lemma(eng, "C12: Copied(n) carries exactly the kernel's count", p.pc, u.fields[0].t == k.t)
            ctx.witness(eng, "short count inside an iteration", p.pc, [k.t < copies[0].args[2].t])
        elif p.status == "return":
            errs = [e for e in it if is_errev(e)]
            if errs:
                (ctx.passed if is_err(p.ret) else ctx.fail)("C04: a failed copy/send makes copy_bytes return Err", str(trace_names(p)))
            elif not is_ok(p.ret):
                ctx.fail("copy_bytes: Ok on the error-free exit", repr(p.ret))
            else:
                ctx.lemma(eng, "copy_bytes: loop exit implies written == len", p.pc, p.ret.fields[0].t == length.t)
        elif p.status != "infeasible":
            ctx.fail("copy_bytes: unexpected path end", "%s %s" % (p.status, p.msg))
    if n_iter == 0:
        ctx.fail("copy_bytes: loop body reachable", "no path returned to the loop head")
    ctx.bounds = "one inductive step from an arbitrary loop state: any length, any block size >= 1, any short counts"


def _loop_obligations(ctx, spec, label):
    if not spec.obligations:
        ctx.fail(label, "loop head never reached")
    for kind, okk, model, pc, claim in spec.obligations:
        ctx.lemmas.append({"name": "%s (%s)" % (label, kind), "ok": bool(okk), "cvc5": ctx._cvc5(pc, claim, okk),
                           "counterexample": {str(d): str(model[d]) for d in model.decls()} if model else None})


def _copy_bytes_contract(eng):
    """assume/guarantee: copy_bytes(n) is replaced by what lemma_copy_bytes proves about it"""
    def s(eng, st, callee, args, dty):
        n = args[1]
        return [Outcome(ok(n), events=[Event("copy_bytes", [n], "ok")]),
                Outcome(err("anyhow::Error"), events=[Event("copy_bytes", [n], "err")])]
    eng.add_summary(r"^CopyHandle::copy_bytes$", s)


def lemma_copy_sparse(ctx):
    """copy_sparse: inductive step over the segment walk (C01, C11, C07)."""
    eng = ctx.engine("libxcp", loop_bound=2)
    install_env(ctx, eng)
    _copy_bytes_contract(eng)
    fn = fn_named(eng.funcs, "CopyHandle::copy_sparse")
    st = State()
    cfg, cv, handle, upd = _setup(ctx, eng, st)
    meta = handle.attrs[("f", None, ctx.field("CopyHandle", "metadata"))]
    length = eng.fresh_int(st, "u64", "src_len")
    meta.attrs["len"] = length
    st.ghost["src_len"] = length
    l_pos = dbg_local(fn, "pos")

    def inv(eng, s, fr):
        return fr.locals[l_pos].v.t <= length.t
    spec = LoopSpec(fn, loop_header(fn), inv)
    install_loop(eng, spec)
    paths = eng.run(fn.name, [RefV(Cell(handle)), upd], st)
    ctx.paths += len(paths)
    _loop_obligations(ctx, spec, "copy_sparse invariant pos<=len")
    n_iter = 0
    for p in paths:
        evs = list(p.trace)
        if p.status == "panic":
            ctx.fail("copy_sparse: no arithmetic panic", p.msg, info={"trace": trace_names(p)})
            continue
        idx = [i for i, e in enumerate(evs) if e.name == "loop-havoc"]
        it = evs[idx[0] + 1:] if idx else evs
        pos0 = evs[idx[0]].info["locals"][l_pos] if idx else IntV(0, "u64")
        segs = [e for e in it if e.name == "next_sparse_segments"]
        cps = [e for e in it if e.name == "copy_bytes"]
        for e in segs:
            ctx.lemma(eng, "copy_sparse: segment search starts at the current position", p.pc, e.args[2].t == pos0.t)
            if e.args[0] != "infd" or e.args[1] != "outfd":
                ctx.fail("copy_sparse: segment search on (source, destination)", str(e.args[:2]))
        if p.status == "loop-back":
            n_iter += 1
            nd, nh = segs[0].ret
            fr = p.frames[-1]
            if len(cps) != 1:
                ctx.fail("copy_sparse: exactly one copy per data segment", str(trace_names(p)))
            else:
                ctx.lemma(eng, "C01/C11: the bytes copied are exactly the data segment [next_data, next_hole)", p.pc,
                          cps[0].args[0].t == nh.t - nd.t)
            ctx.lemma(eng, "copy_sparse: position advances to the end of the segment (progress, C07)", p.pc,
                      z3.And(fr.locals[l_pos].v.t == nh.t, nh.t > pos0.t))
        elif p.status == "return":
            errs = [e for e in it if is_errev(e)]
            if errs:
                (ctx.passed if is_err(p.ret) else ctx.fail)("C04: a failed segment search/copy makes copy_sparse return Err", str(trace_names(p)))
            elif is_ok(p.ret):
                fr_pc = p.pc
                ctx.lemma(eng, "copy_sparse: returns the source length", fr_pc, p.ret.fields[0].t == length.t)
            else:
                ctx.fail("copy_sparse: Ok on the error-free exit", repr(p.ret))
        elif p.status not in ("infeasible",):
            ctx.fail("copy_sparse: unexpected path end", "%s %s" % (p.status, p.msg))
    if n_iter == 0:
        ctx.fail("copy_sparse: loop body reachable", "no path returned to the loop head")
    ctx.bounds = "one inductive step from an arbitrary loop state: any length, any hole layout allowed by the segment contract"


def lemma_copy_file(ctx):
    """copy_file: reflink mode dispatch, sparse/non-sparse choice, full-length copy (C01, C15, C04)."""
    eng = ctx.engine("libxcp", loop_bound=2)
    install_env(ctx, eng)
    _copy_bytes_contract(eng)
    eng.inline += [r"CopyHandle::try_reflink$", r"::try_reflink$"]

    def s_sparse(eng, st, callee, args, dty):
        return [Outcome(ok(st.ghost["len"]), events=[Event("copy_sparse", [], "ok")]),
                Outcome(err("anyhow::Error"), events=[Event("copy_sparse", [], "err")])]
    eng.add_summary(r"^CopyHandle::copy_sparse$", s_sparse)
    eng.add_summary(r"^<Reflink as PartialEq>::eq$", lambda e, st, c, a, d: Outcome(_enum_eq(e, st, a)))
    eng.add_summary(r"^(std::)?(fmt::)?format$|^must_use::<", lambda e, st, c, a, d: Outcome(a[0] if c.startswith("must_use") else OpaqueV("String", None)))
    fn = fn_named(eng.funcs, "CopyHandle::copy_file")
    st = State()
    cfg, cv, handle, upd = _setup(ctx, eng, st)
    meta = handle.attrs[("f", None, ctx.field("CopyHandle", "metadata"))]
    length = eng.fresh_int(st, "u64", "src_len")
    meta.attrs["len"] = length
    meta.attrs["blocks"] = eng.fresh_int(st, "u64", "src_st_blocks")
    st.ghost["len"] = length
    paths = eng.run(fn.name, [RefV(Cell(handle)), upd], st)
    ctx.paths += len(paths)
    mode = cv["reflink"]
    seen = set()
    for p in paths:
        if p.status != "return":
            ctx.fail("copy_file: path ends in return", "%s %s" % (p.status, p.msg))
            continue
        names = trace_names(p)
        rl = [e for e in p.trace if e.name == "reflink"]
        cb = [e for e in p.trace if e.name == "copy_bytes"]
        cs = [e for e in p.trace if e.name == "copy_sparse"]
        is_never = enum_is(eng, p, mode, "Reflink", "Never")
        is_always = enum_is(eng, p, mode, "Reflink", "Always")
        is_auto = enum_is(eng, p, mode, "Reflink", "Auto")
        # C15 never: no clone request on any path where the mode can be Never
        if rl:
            ctx.lemma(eng, "C15: reflink=never issues no clone request", p.pc, z3.Not(is_never), key=None, info={"trace": names})
        else:
            ctx.lemma(eng, "C15: always/auto attempt the clone before any data copy", p.pc, is_never, info={"trace": names})
        if rl and (cb or cs):
            first_copy = min(i for i, e in enumerate(p.trace) if e.name in ("copy_bytes", "copy_sparse"))
            if p.trace.index(rl[0]) > first_copy:
                ctx.fail("C15: clone attempted before data copy", str(names))
        errs = [e for e in p.trace if is_errev(e)]
        if errs:
            (ctx.passed if is_err(p.ret) else ctx.fail)("C04: a failed step makes copy_file return Err", str(names))
            continue
        if rl and isinstance(rl[0].ret, BoolV):
            worked = rl[0].ret.t
            if is_ok(p.ret):
                # Ok with mode Always requires a successful clone and no data copy
                ctx.lemma(eng, "C15: reflink=always returns Ok only after a successful clone", p.pc, z3.Implies(is_always, worked), info={"trace": names})
                if cb or cs:
                    ctx.lemma(eng, "C15: data is copied only when the clone did not happen", p.pc, z3.Not(worked), info={"trace": names})
                else:
                    ctx.lemma(eng, "C15/C01: Ok without a data copy only after a successful clone", p.pc, worked, info={"trace": names})
            else:
                ctx.lemma(eng, "C15: error without a failed call only for always + unsupported clone", p.pc,
                          z3.And(is_always, z3.Not(worked)), info={"trace": names})
        if is_ok(p.ret) and (cb or cs):
            # C11: the hole-skipping path is taken exactly for sources that look sparse (st_blocks < st_size/512)
            looks = meta.attrs["blocks"].t < meta.attrs["len"].t / 512
            if cs:
                ctx.lemma(eng, "C11: the segment-walking (hole-skipping) copy is used only for sources that look sparse", p.pc, looks, info={"trace": names})
            else:
                ctx.lemma(eng, "C11: a source that looks sparse (st_blocks < st_size/512) is always copied with the hole-skipping path", p.pc, z3.Not(looks), info={"trace": names})
        if is_ok(p.ret):
            ctx.lemma(eng, "C01: copy_file reports the source length", p.pc, p.ret.fields[0].t == length.t)
            for e in cb:
                ctx.lemma(eng, "C01: non-sparse copy requests the whole source length", p.pc, e.args[0].t == length.t)
            seen.add(("ok", bool(rl), bool(cb), bool(cs)))
    for want, label in (((("ok", True, True, False)), "auto fallback to a byte copy"), (("ok", True, False, False), "successful clone"),
                        (("ok", False, True, False), "never: plain copy"), (("ok", True, False, True), "auto fallback to the sparse copy")):
        if want in seen:
            ctx.passed("witness: " + label)
        else:
            ctx.fail("witness: " + label, "no such path", key=None)
    ctx.bounds = "loop-free; all reflink modes x clone outcomes {ok, unsupported, error} x sparse/non-sparse x one fault"


def _enum_eq(eng, st, args):
    a, b = (deref_ref(eng, st, x) for x in args)
    da, db = eng.discriminant(st, a), eng.discriminant(st, b)
    return BoolV(da.t == db.t)
