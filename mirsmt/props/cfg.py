"""Small CFG helpers over parsed MIR."""
from sym import natural_loop, EngineAbort


def succs(fn, b):
    term = fn.blocks[b][1]
    if term is None:
        return []
    k = term[0]
    if k == "goto":
        return [term[1]]
    if k == "switch":
        return [bb for _, bb in term[2]] + ([term[3]] if term[3] is not None else [])
    if k == "drop":
        return [term[2]]
    if k == "assert":
        return [term[4]]
    if k == "call":
        return [term[4]] if term[4] is not None else []
    return []


def loop_headers(fn):
    """blocks that are the target of a back edge (DFS from bb0 over non-cleanup blocks)"""
    heads, state = [], {}

    def dfs(b):
        state[b] = 1
        for s in succs(fn, b):
            if s in fn.cleanup:
                continue
            if state.get(s) == 1:
                if s not in heads:
                    heads.append(s)
            elif s not in state:
                dfs(s)
        state[b] = 2
    dfs(0)
    return heads


def loop_header(fn):
    h = loop_headers(fn)
    if len(h) != 1:
        raise EngineAbort("expected exactly one loop in %s, found %r" % (fn.name, h))
    return h[0]
