"""libfs leaf functions over a contract-level kernel model (C19, C05, C11, C14, C15, C10)."""
import re

import z3

from props.common import *

OFF_MAX = (1 << 63) - 1


def _vec(eng):
    S = eng.add_summary
    S(r"^Vec::<.*>::(new|with_capacity)$", lambda e, st, c, a, d: Outcome(OpaqueV("Vec", None, {"items": []})))

    def s_push(eng, st, callee, args, dty):
        v = deref_ref(eng, st, args[0])
        v.attrs["items"].append(args[1])
        return Outcome(UnitV())
    S(r"^Vec::<.*>::push$", s_push)
    S(r"^<Vec<.*> as IntoIterator>::into_iter$", lambda e, st, c, a, d: Outcome(OpaqueV("IntoIter", None, {"items": list(a[0].attrs["items"]), "pos": Cell(0)})))

    def s_next(eng, st, callee, args, dty):
        it = deref_ref(eng, st, args[0])
        i = it.attrs["pos"].v
        if i < len(it.attrs["items"]):
            it.attrs["pos"].v = i + 1
            return Outcome(AggV("Option", 1, [it.attrs["items"][i]], "Some"))
        return Outcome(AggV("Option", 0, [], "None"))
    S(r"^<std::vec::IntoIter<.*> as Iterator>::next$", s_next)


def _sym_extents(eng, st, n):
    items, prev = [], None
    for i in range(n):
        s_ = eng.fresh_int(st, "u64", "e%d_start" % i)
        e_ = eng.fresh_int(st, "u64", "e%d_end" % i)
        st.pc += [s_.t < e_.t, e_.t <= OFF_MAX]           # FIEMAP contract: non-empty, offsets are off_t
        if prev is not None:
            st.pc.append(s_.t >= prev.t)                  # sorted, non-overlapping
        prev = e_
        items.append(AggV("Extent", None, [s_, e_, BoolV(z3.Bool("e%d_shared" % i))]))
    return items


def lemma_merge_extents(ctx):
    """merge_extents for every sorted list of up to N extents over full 64-bit offsets (C19)."""
    nmax = 4 if ctx.tier == "quick" else 6
    total_paths = 0
    merged_seen = False
    for n in range(0, nmax + 1):
        eng = ctx.engine("libfs", loop_bound=n + 2)
        install_log_off(eng)
        _vec(eng)
        fn = fn_named(eng.funcs, "merge_extents")
        st = State()
        items = _sym_extents(eng, st, n)
        paths = eng.run(fn.name, [OpaqueV("Vec<Extent>", None, {"items": items})], st)
        total_paths += len(paths)
        x = z3.Int("x")
        for p in paths:
            if p.status != "return" or not is_ok(p.ret):
                ctx.fail("C01/C19: merge_extents returns Ok for every sorted extent list", "%s %s (n=%d)" % (p.status, p.msg, n))
                continue
            out = p.ret.fields[0].attrs["items"]
            if len(out) < len(items):
                merged_seen = True
            in_input = z3.Or(*[z3.And(e.fields[0].t <= x, x < e.fields[1].t) for e in items]) if items else z3.BoolVal(False)
            in_out = z3.Or(*[z3.And(e.fields[0].t <= x, x < e.fields[1].t) for e in out]) if out else z3.BoolVal(False)
            gaps = [z3.And(items[i].fields[1].t <= x, x < items[i + 1].fields[0].t,
                           items[i + 1].fields[0].t == items[i].fields[1].t + 1) for i in range(len(items) - 1)]
            in_gap = z3.Or(*gaps) if gaps else z3.BoolVal(False)
            ctx.lemma(eng, "C01/C19: merging never drops coverage (every input byte is in a merged range)", p.pc, z3.Implies(in_input, in_out), info={"n": n})
            ctx.lemma(eng, "C11/C19: merging adds nothing but the gap between extents it deems adjacent", p.pc,
                      z3.Implies(in_out, z3.Or(in_input, in_gap)), info={"n": n})
            for j, o in enumerate(out):
                ctx.lemma(eng, "C19: merged ranges are non-empty", p.pc, o.fields[0].t < o.fields[1].t)
                if j + 1 < len(out):
                    ctx.lemma(eng, "C01/C19: merged ranges are ordered and non-overlapping", p.pc, o.fields[1].t <= out[j + 1].fields[0].t)
                ctx.lemma(eng, "C11/C19: merged ranges begin and end at input boundaries", p.pc,
                          z3.And(z3.Or(*[o.fields[0].t == e.fields[0].t for e in items]), z3.Or(*[o.fields[1].t == e.fields[1].t for e in items])))
            (ctx.passed if (len(out) == 0) == (n == 0) else ctx.fail)("C19: the merged list is empty only for an empty input", "n=%d out=%d" % (n, len(out)))
    ctx.paths += total_paths
    (ctx.passed if merged_seen else ctx.fail)("witness: some path merges two extents", "")
    validate_merge_vectors(ctx)
    ctx.bounds = "all sorted, non-overlapping extent lists of 0..%d extents, offsets 0..2^63-1 (symbolic); %d paths" % (nmax, total_paths)


def lemma_map_extents(ctx):
    """map_extents paging loop against the FIEMAP contract (C19, C05)."""
    pages = 2 if ctx.tier == "quick" else 3
    per_page = 2
    eng = ctx.engine("libfs", loop_bound=(per_page + 2) * (pages + 1))
    install_log_off(eng)
    _vec(eng)
    eng.inline += [r"^FiemapReq::new$", r"^FiemapExtent::new$", r"::new$"]

    def s_fiemap(eng, st, callee, args, dty):
        req = deref_ref(eng, st, args[1])
        names = ctx.structs()["FiemapReq"]
        fi = {n: i for i, n in enumerate(names)}
        en = {n: i for i, n in enumerate(ctx.structs()["FiemapExtent"])}
        start = req.fields[fi["fm_start"]]
        count = req.fields[fi["fm_extent_count"]]
        length = req.fields[fi["fm_length"]]
        npage = st.ghost.get("pages", 0)
        outs = []
        if npage >= pages:
            return [Outcome(diverge="model bound: more FIEMAP pages than explored")]
        for n in range(0, per_page + 1):
            exts, conds, prev = [], [], start
            for i in range(n):
                lo = eng.fresh_int(st, "u64", "p%d_e%d_logical" % (npage, i))
                ln = eng.fresh_int(st, "u64", "p%d_e%d_length" % (npage, i))
                last = z3.Bool("p%d_e%d_last_%d" % (npage, i, next(eng.fresh_ids)))
                shared = z3.Bool("p%d_e%d_shared_%d" % (npage, i, next(eng.fresh_ids)))
                conds += [lo.t >= prev.t if i else lo.t + ln.t > start.t, ln.t >= 1, lo.t + ln.t <= OFF_MAX]
                if i:
                    conds.append(lo.t >= exts[-1][0].t + exts[-1][1].t)
                if i < n - 1:
                    conds.append(z3.Not(last))     # LAST marks the final extent of the file only
                prev = lo
                exts.append((lo, ln, last, shared))

            def eff(eng, s2, a2, exts=exts, n=n):
                r2 = deref_ref(eng, s2, a2[1])
                r2.fields[fi["fm_mapped_extents"]] = IntV(n, "u32")
                arr = r2.fields[fi["fm_extents"]]
                for i, (lo, ln, last, shared) in enumerate(exts):
                    e = arr.fields[i]
                    e.fields[en["fe_logical"]] = lo
                    e.fields[en["fe_length"]] = ln
                    e.fields[en["fe_flags"]] = IntV(z3.If(last, 1, 0) + z3.If(shared, 0x2000, 0), "u32")
                s2.ghost["pages"] = s2.ghost.get("pages", 0) + 1
            outs.append(Outcome(ok(BoolV(True)), conds, events=[Event("fiemap", [start, count, length], exts)], effect=eff))
        outs.append(Outcome(ok(BoolV(False)), events=[Event("fiemap", [start, count, length], "unsupported")]))
        outs.append(Outcome(err("errors::Error"), events=[Event("fiemap", [start, count, length], "err")]))
        return outs
    eng.add_summary(r"^(linux::)?fiemap$", s_fiemap)
    fn = fn_named(eng.funcs, "map_extents")
    st = State()
    paths = eng.run(fn.name, [RefV(Cell(OpaqueV("std::fs::File", "infd")))], st)
    ctx.paths += len(paths)
    kinds = set()
    for p in paths:
        calls = [e for e in p.trace if e.name == "fiemap"]
        if p.status == "panic":
            if "model bound" in p.msg:
                kinds.add("bound")
                continue
            ctx.fail("C19: map_extents does not panic for extents within off_t", p.msg)
            continue
        if p.status != "return":
            ctx.fail("map_extents: path ends in return", "%s %s" % (p.status, p.msg))
            continue
        for i, c in enumerate(calls):
            ctx.lemma(eng, "C19: every FIEMAP request offers the whole 32-entry page", p.pc, c.args[1].t == 32)
            ctx.lemma(eng, "C01/C11/C19: every FIEMAP request covers the file from fm_start to the largest offset (no window that hides later extents)", p.pc,
                      c.args[0].t + c.args[2].t >= OFF_MAX)
            if i == 0:
                ctx.lemma(eng, "C01/C19: the first FIEMAP request starts at offset 0", p.pc, c.args[0].t == 0)
            else:
                prev = calls[i - 1].ret
                ctx.lemma(eng, "C01/C19: the next FIEMAP page starts at the end of the last extent seen (nothing skipped or repeated)", p.pc,
                          c.args[0].t == prev[-1][0].t + prev[-1][1].t)
        last = calls[-1]
        if last.ret == "unsupported":
            kinds.add("unsupported")
            r = p.ret.fields[0] if is_ok(p.ret) else None
            (ctx.passed if r is not None and isinstance(r, AggV) and r.vname == "None" else ctx.fail)(
                "C05/C19: an unsupported extent map is reported as None (whole-file copy), not as an empty map", repr(p.ret))
            continue
        if is_errev(last):
            (ctx.passed if is_err(p.ret) else ctx.fail)("C04/C19: a failing FIEMAP makes map_extents fail", repr(p.ret))
            continue
        if not is_ok(p.ret) or p.ret.fields[0].vname != "Some":
            ctx.fail("C01/C11/C19: map_extents returns Some(list) when FIEMAP works", repr(p.ret))
            continue
        out = p.ret.fields[0].fields[0].attrs["items"]
        allx = [x for c in calls for x in c.ret]
        kinds.add("pages%d" % len(calls))
        if len(out) != len(allx):
            ctx.fail("C01/C19: every extent of every FIEMAP page is reported, in order (none dropped, none repeated)", "%d reported vs %d returned" % (len(out), len(allx)))
            continue
        for o, (lo, ln, lastf, shared) in zip(out, allx):
            ctx.lemma(eng, "C01/C11/C19: a reported range is exactly [fe_logical, fe_logical + fe_length)", p.pc,
                      z3.And(o.fields[0].t == lo.t, o.fields[1].t == lo.t + ln.t))
            ctx.lemma(eng, "C19: the shared flag is the FIEMAP_EXTENT_SHARED bit", p.pc, o.fields[2].t == shared)
        # the loop stopped: either the last page was empty or its final extent carried LAST
        fin = calls[-1].ret
        if fin:
            ctx.lemma(eng, "C19: paging stops only at an empty page or at the extent flagged LAST", p.pc, fin[-1][2])
        for c in calls[:-1]:
            ctx.lemma(eng, "C01/C19: paging continues while the last extent of a page is not flagged LAST", p.pc, z3.Not(c.ret[-1][2]))
    for k in ("unsupported", "pages1", "pages2"):
        (ctx.passed if k in kinds else ctx.fail)("witness: %s" % k, str(sorted(kinds)))
    ctx.bounds = "<= %d FIEMAP pages of <= %d extents each (the code's page size 32 is checked as the request size, not filled)" % (pages, per_page)


def lemma_cfr(ctx):
    """try_copy_file_range classification and the userspace fallbacks of copy_file_bytes/offset (C05)."""
    eng = ctx.engine("libfs", loop_bound=2)
    install_log_off(eng)
    eng.inline += [r"^try_copy_file_range$", r"^copy_file_(bytes|offset)::\{closure#0\}$"]

    def s_cfr(eng, st, callee, args, dty):
        k = eng.fresh_int(st, "usize", "k")
        errno = eng.fresh_int(st, "u16", "errno")
        offs = []
        for a in (args[1], args[3]):
            if isinstance(a, AggV) and a.vname == "Some":
                offs.append(deref_ref(eng, st, a.fields[0]))
            else:
                offs.append(None)
        ev = [file_id(args[0], eng, st), file_id(args[2], eng, st), offs[0], offs[1], args[4]]
        e = AggV("Result", 1, [AggV("Errno", None, [errno])], "Err")
        return [Outcome(ok(k), [k.t <= args[4].t], events=[Event("cfr", ev, k)]),
                Outcome(e, [errno.t >= 65536 - 4095], events=[Event("cfr", ev, errno)])]
    eng.add_summary(r"^rustix::fs::copy_file_range::<", s_cfr)

    def s_unwrap_or_else(eng, st, callee, args, dty):
        o = args[0]
        if o.vname == "Some":
            return Outcome(o.fields[0])
        m = re.search(r"(\{closure@[^}]*\})", callee)
        for name, fn in eng.funcs.items():
            if "{closure#" in name and fn.args and m.group(1) in fn.args[0][1]:
                return ("inline", fn, [args[1]])
        raise EngineAbort("unwrap_or_else closure not found")
    eng.add_summary(r"^Option::<.*>::unwrap_or_else::<", s_unwrap_or_else)

    def s_uspace(name):
        def h(eng, st, callee, args, dty):
            a = [file_id(args[0], eng, st), file_id(args[1], eng, st)] + list(args[2:])
            return [Outcome(ok(args[2]), events=[Event(name, a, "ok")]), Outcome(err("errors::Error"), events=[Event(name, a, "err")])]
        return h
    eng.add_summary(r"^copy_bytes_uspace$", s_uspace("copy_bytes_uspace"))
    eng.add_summary(r"^copy_range_uspace$", s_uspace("copy_range_uspace"))
    FALLBACK = [65536 - 38, 65536 - 1, 65536 - 18]   # ENOSYS, EPERM, EXDEV as rustix's raw u16
    seen = set()
    for which in ("copy_file_bytes", "copy_file_offset"):
        fn = fn_named(eng.funcs, which)
        st = State()
        n = eng.fresh_int(st, "u64", "bytes")
        off = eng.fresh_int(st, "i64", "off")
        st.pc.append(off.t >= 0)
        a = [RefV(Cell(OpaqueV("std::fs::File", "infd"))), RefV(Cell(OpaqueV("std::fs::File", "outfd"))), n]
        if which == "copy_file_offset":
            a.append(off)
        paths = eng.run(fn.name, a, st)
        ctx.paths += len(paths)
        for p in paths:
            if p.status != "return":
                ctx.fail("%s: path ends in return" % which, "%s %s" % (p.status, p.msg))
                continue
            cfr = [e for e in p.trace if e.name == "cfr"]
            us = [e for e in p.trace if e.name in ("copy_bytes_uspace", "copy_range_uspace")]
            if len(cfr) != 1 or cfr[0].args[0] != "infd" or cfr[0].args[1] != "outfd":
                ctx.fail("C01/C05: exactly one in-kernel copy attempt, from the source to the destination descriptor", str(trace_names(p)))
                continue
            c = cfr[0]
            ctx.lemma(eng, "C01/C05: the kernel is asked for exactly the requested byte count", p.pc, c.args[4].t == n.t)
            if which == "copy_file_offset":
                if not (isinstance(c.args[2], IntV) and isinstance(c.args[3], IntV)):
                    ctx.fail("C01/C05: the offset variant passes explicit offsets for both descriptors", repr(c.args))
                else:
                    ctx.lemma(eng, "C01/C05: both explicit offsets equal the requested offset", p.pc, z3.And(c.args[2].t == off.t, c.args[3].t == off.t))
            elif c.args[2] is not None or c.args[3] is not None:
                ctx.fail("C01/C05: the cursor variant leaves offset tracking to the kernel", repr(c.args))
            if isinstance(c.ret, IntV) and c.ret.ty == "u16":
                is_fb = z3.Or(*[c.ret.t == v for v in FALLBACK])
                if us:
                    seen.add("fallback")
                    ctx.lemma(eng, "C05: the userspace fallback is taken only for ENOSYS/EPERM/EXDEV", p.pc, is_fb)
                    u = us[0]
                    want = "copy_bytes_uspace" if which == "copy_file_bytes" else "copy_range_uspace"
                    if u.name != want or u.args[0] != "infd" or u.args[1] != "outfd":
                        ctx.fail("C05: the fallback matches the variant and the descriptors", str(trace_names(p)))
                    else:
                        ctx.lemma(eng, "C05: the fallback copies the same byte count", p.pc, u.args[2].t == n.t)
                        if which == "copy_file_offset":
                            ctx.lemma(eng, "C05: the fallback copies at the same offset", p.pc, u.args[3].t == off.t)
                else:
                    seen.add("fatal")
                    ctx.lemma(eng, "C05: ENOSYS/EPERM/EXDEV from copy_file_range always fall back to userspace", p.pc, z3.Not(is_fb))
                    (ctx.passed if is_err(p.ret) else ctx.fail)("C04/C05: any other copy_file_range error is fatal", repr(p.ret))
            else:
                seen.add("ok")
                if us:
                    ctx.fail("C01/C05: no userspace copy after a successful kernel copy (no duplicated bytes)", str(trace_names(p)))
                elif not is_ok(p.ret):
                    ctx.fail("C01/C05: the kernel's count is returned", repr(p.ret))
                else:
                    ctx.lemma(eng, "C01/C05: the kernel's count is returned unchanged", p.pc, p.ret.fields[0].t == c.ret.t)
    for k in ("ok", "fallback", "fatal"):
        (ctx.passed if k in seen else ctx.fail)("witness: %s path" % k, str(sorted(seen)))
    ctx.bounds = "loop-free; every errno value, every count <= request, any offset >= 0"


def _meta_summaries(eng):
    S = eng.add_summary

    def s_pmeta(eng, st, callee, args, dty):
        p = deref_ref(eng, st, args[0])
        nm = getattr(p, "name", "p")
        return [Outcome(ok(OpaqueV("std::fs::Metadata", "meta_" + nm)), events=[Event("Path::metadata", [nm], "ok")]),
                Outcome(err("std::io::Error"), events=[Event("Path::metadata", [nm], "err")])]
    S(r"^(std::path::)?Path::metadata$", s_pmeta)

    def s_fmeta(eng, st, callee, args, dty):
        f = deref_ref(eng, st, args[0])
        nm = getattr(f, "name", "f")
        return [Outcome(ok(OpaqueV("std::fs::Metadata", "meta_" + nm)), events=[Event("File::metadata", [nm], "ok")]),
                Outcome(err("std::io::Error"), events=[Event("File::metadata", [nm], "err")])]
    S(r"^(std::fs::)?File::metadata$", s_fmeta)

    def attr(name, ty):
        def h(eng, st, callee, args, dty):
            m = deref_ref(eng, st, args[0])
            if name not in m.attrs:
                m.attrs[name] = eng.fresh_int(st, ty, "%s_%s" % (m.name, name)) if ty else OpaqueV(name, "%s_%s" % (m.name, name), {"of": m.name})
            return Outcome(m.attrs[name])
        return h
    for nm, ty in (("dev", "u64"), ("rdev", "u64"), ("ino", "u64"), ("uid", "u32"), ("gid", "u32"), ("st_blocks", "u64"), ("st_size", "u64")):
        S(r"MetadataExt>::%s$" % nm, attr(nm, ty))
    def s_perms(eng, st, callee, args, dty):
        m = deref_ref(eng, st, args[0])
        if "st_mode" not in m.attrs:
            m.attrs["st_mode"] = eng.fresh_int(st, "u32", m.name + "_st_mode")
        if "permissions" not in m.attrs:
            m.attrs["permissions"] = OpaqueV("permissions", m.name + "_permissions", {"of": m.name, "mode": m.attrs["st_mode"]})
        return Outcome(m.attrs["permissions"])
    S(r"^(std::fs::)?Metadata::permissions$", s_perms)

    def s_stmode(eng, st, callee, args, dty):
        m = deref_ref(eng, st, args[0])
        if "st_mode" not in m.attrs:
            m.attrs["st_mode"] = eng.fresh_int(st, "u32", m.name + "_st_mode")
        return Outcome(m.attrs["st_mode"])
    S(r"MetadataExt>::(st_)?mode$", s_stmode)
    S(r"PermissionsExt>::from_mode$|^(std::fs::)?Permissions::from_mode$", lambda e, st, c, a, d: Outcome(OpaqueV("permissions", None, {"mode": a[0]})))
    S(r"^(std::fs::)?Metadata::len$", attr("len", "u64"))

    def s_time(which):
        def h(eng, st, callee, args, dty):
            m = deref_ref(eng, st, args[0])
            return [Outcome(ok(OpaqueV("SystemTime", "%s_%s" % (m.name, which), {"of": m.name, "which": which}))),
                    Outcome(err("std::io::Error"), events=[Event("Metadata::" + which, [m.name], "err")])]
        return h
    S(r"^(std::fs::)?Metadata::accessed$", s_time("accessed"))
    S(r"^(std::fs::)?Metadata::modified$", s_time("modified"))

    def s_mode(eng, st, callee, args, dty):
        pm = args[0] if not isinstance(args[0], RefV) else deref_ref(eng, st, args[0])
        if "mode" not in pm.attrs:
            pm.attrs["mode"] = eng.fresh_int(st, "u32", pm.name + "_mode")
        return Outcome(pm.attrs["mode"])
    S(r"PermissionsExt>::mode$", s_mode)


def lemma_copy_node(ctx):
    """copy_node: the node is created with the source's type, permission bits and *device number* (C14)."""
    eng = ctx.engine("libfs", loop_bound=2)
    install_log_off(eng)
    _meta_summaries(eng)
    eng.add_summary(r"^<u32 as From<u32>>::from$", lambda e, st, c, a, d: Outcome(a[0]))
    eng.add_summary(r"^(rustix::fs::)?Mode::from_raw_mode$", lambda e, st, c, a, d: Outcome(OpaqueV("Mode", None, {"raw": a[0]})))
    eng.add_summary(r"^rustix::fs::FileType::from_raw_mode$", lambda e, st, c, a, d: Outcome(OpaqueV("FileType", None, {"raw": a[0]})))

    def s_mknod(eng, st, callee, args, dty):
        p = deref_ref(eng, st, args[1])
        a = [getattr(p, "name", "?"), args[2], args[3], args[4]]
        return [Outcome(ok(), events=[Event("mknodat", a, "ok")]),
                Outcome(AggV("Result", 1, [OpaqueV("Errno")], "Err"), events=[Event("mknodat", a, "err")])]
    eng.add_summary(r"^rustix::fs::mknodat::<", s_mknod)
    fn = fn_named(eng.funcs, "copy_node")
    st = State()
    paths = eng.run(fn.name, [RefV(Cell(OpaqueV("Path", "src"))), RefV(Cell(OpaqueV("Path", "dest")))], st)
    ctx.paths += len(paths)
    okp = 0
    for p in paths:
        if p.status != "return":
            ctx.fail("copy_node: path ends in return", "%s %s" % (p.status, p.msg))
            continue
        mk = [e for e in p.trace if e.name == "mknodat"]
        md = [e for e in p.trace if e.name == "Path::metadata"]
        # C06: copy_node runs on worker threads next to the walker's mkdir and other workers' open(O_CREAT):
        # it must not change process-wide state (umask, working directory, environment), however briefly
        glob = [e for e in p.trace if e.name == "process-state"]
        (ctx.fail if glob else ctx.passed)("C06/C14: copy_node leaves process-wide state (umask, cwd, environment) alone: other threads create entries concurrently",
                                           str(trace_names(p)))
        if any(is_errev(e) for e in p.trace):
            (ctx.passed if is_err(p.ret) else ctx.fail)("C04/C14: a failing stat/mknod makes copy_node fail", str(trace_names(p)))
            continue
        okp += 1
        if len(md) != 1 or md[0].args[0] != "src":
            ctx.fail("C14: the source node is stat'ed, never opened", str(trace_names(p)))
        if len(mk) != 1 or mk[0].args[0] != "dest":
            ctx.fail("C14: exactly one node is created, at the destination path", str(trace_names(p)))
            continue
        _path, ftype, mode, dev = mk[0].args
        meta_mode = None
        for e in p.trace:
            pass
        raw_t = ftype.attrs.get("raw") if isinstance(ftype, OpaqueV) else None
        raw_m = mode.attrs.get("raw") if isinstance(mode, OpaqueV) else None
        if not (isinstance(raw_t, IntV) and isinstance(raw_m, IntV)):
            ctx.fail("C14: node type and permission bits come from the source's st_mode", repr((ftype, mode)))
        else:
            src_mode = z3.Int("meta_src_st_mode")
            names = [str(d) for d in z3.z3util.get_vars(raw_t.t)]
            ok1 = any(n.startswith("meta_src_st_mode") for n in names)
            (ctx.passed if ok1 else ctx.fail)("C14: node type and permission bits come from the source's st_mode", str(names))
            ctx.lemma(eng, "C14: type and permission bits are taken from the same st_mode value", p.pc, raw_t.t == raw_m.t)
        dn = [str(d) for d in z3.z3util.get_vars(dev.t)] if isinstance(dev, IntV) else []
        if any(n.startswith("meta_src_rdev") for n in dn):
            ctx.passed("C14: the new node carries the source's device number (st_rdev)")
        else:
            ctx.fail("C14: the new node carries the source's device number (st_rdev)",
                     "mknodat receives %r (st_dev is the id of the filesystem holding the node, not the node's device)" % (dn or dev,),
                     key="copy_node:dev-not-rdev")
    (ctx.passed if okp else ctx.fail)("witness: success path of copy_node", "")
    ctx.bounds = "loop-free; any mode, any device numbers"


def _ioctl(eng):
    def s_ioctl(eng, st, callee, args, dty):
        r = eng.fresh_int(st, "i32", "ioctl_ret")
        return Outcome(r, [z3.Or(r.t == 0, r.t == -1)], events=[Event("ioctl", list(args), r)])
    eng.add_summary(r"^libc::ioctl$", s_ioctl)
    eng.add_summary(r"^<File as AsRawFd>::as_raw_fd$", lambda e, st, c, a, d: Outcome(OpaqueV("RawFd", "fd_of_" + file_id(a[0], e, st))))

    def s_last(eng, st, callee, args, dty):
        errno = eng.fresh_int(st, "i32", "errno")
        st.pc.append(z3.And(errno.t >= 1, errno.t <= 4095))
        return Outcome(OpaqueV("std::io::Error", None, {"errno": errno}), events=[Event("errno", [], errno)])
    eng.add_summary(r"^std::io::Error::last_os_error$", s_last)
    eng.add_summary(r"^std::io::Error::raw_os_error$", lambda e, st, c, a, d: Outcome(AggV("Option", 1, [deref_ref(e, st, a[0]).attrs["errno"]], "Some")))

    def s_opt_eq(eng, st, callee, args, dty):
        a, b = (deref_ref(eng, st, x) for x in args)
        if a.vname == "Some" and b.vname == "Some":
            return Outcome(BoolV(a.fields[0].t == b.fields[0].t))
        return Outcome(BoolV(a.vname == b.vname))
    eng.add_summary(r"^<Option<i32> as PartialEq>::eq$", s_opt_eq)


def lemma_reflink(ctx):
    """libfs::reflink: FICLONE issued on (dest <- src); errno classification (C15)."""
    eng = ctx.engine("libfs", loop_bound=2)
    install_log_off(eng)
    _ioctl(eng)
    fn = fn_named(eng.funcs, "reflink")
    st = State()
    paths = eng.run(fn.name, [RefV(Cell(OpaqueV("std::fs::File", "infd"))), RefV(Cell(OpaqueV("std::fs::File", "outfd")))], st)
    ctx.paths += len(paths)
    # "cloning is unavailable here": EOPNOTSUPP, ENOTTY (ioctl unknown to this kernel/file system), ENOSYS, EXDEV, EINVAL, ETXTBSY -- must fall back;
    # real failures that must never be taken for "unsupported": EIO, ENOSPC, EDQUOT, ENOMEM; any other errno may go either way
    UNSUP = [95, 25, 38, 22, 18, 26]
    FATAL = [5, 28, 122, 12]
    seen = set()
    for p in paths:
        if p.status != "return":
            ctx.fail("reflink: path ends in return", "%s %s" % (p.status, p.msg))
            continue
        io = [e for e in p.trace if e.name == "ioctl"]
        if len(io) != 1:
            ctx.fail("C15: exactly one clone request", str(trace_names(p)))
            continue
        fd, req, arg = io[0].args[:3]
        if getattr(fd, "name", "") != "fd_of_outfd" or getattr(arg, "name", "") != "fd_of_infd":
            ctx.fail("C15: FICLONE is issued on the destination with the source as argument", repr(io[0].args))
        ctx.lemma(eng, "C15: the request is FICLONE", p.pc, req.t == 0x40049409)
        r = io[0].ret
        en = [e for e in p.trace if e.name == "errno"]
        if is_ok(p.ret):
            v = p.ret.fields[0]
            if en:
                not_fatal = z3.Not(z3.Or(*[en[0].ret.t == k for k in FATAL]))
                ctx.lemma(eng, "C15: a failed clone is reported as 'unsupported' (false) only after a failed ioctl and never for EIO/ENOSPC/EDQUOT/ENOMEM", p.pc,
                          z3.And(not_fatal, z3.Not(v.t), r.t != 0))
                seen.add("unsupported")
            else:
                ctx.lemma(eng, "C15: true is returned only when the ioctl succeeded", p.pc, z3.And(v.t, r.t == 0))
                seen.add("ok")
        else:
            if not en:
                ctx.fail("C15: an error is returned only after a failed ioctl", str(trace_names(p)))
            else:
                ctx.lemma(eng, "C15: no 'cloning is unavailable' errno (EOPNOTSUPP, ENOTTY, ENOSYS, EXDEV, EINVAL, ETXTBSY) is a hard error: reflink=auto must fall back",
                          p.pc, z3.And(r.t != 0, z3.Not(z3.Or(*[en[0].ret.t == k for k in UNSUP]))), key="reflink:enotty-enosys-fatal")
                seen.add("error")
    for k in ("ok", "unsupported", "error"):
        (ctx.passed if k in seen else ctx.fail)("witness: %s" % k, str(sorted(seen)))
    ctx.bounds = "loop-free; every errno 1..4095"


def lemma_fiemap_call(ctx):
    """libfs::linux::fiemap: EOPNOTSUPP -> unsupported, other errors fatal (C05)."""
    eng = ctx.engine("libfs", loop_bound=2)
    install_log_off(eng)
    _ioctl(eng)
    # descriptor accounting (C20): a duplicate made for the query must be closed again before the call returns
    def s_try_clone(eng, st, callee, args, dty):
        f = deref_ref(eng, st, args[0])
        d = OpaqueV("std::fs::File", getattr(f, "name", "?"), {"dup": True})
        return [Outcome(ok(d), events=[Event("fd_open", [getattr(f, "name", "?")], None)]), Outcome(err("std::io::Error"), events=[Event("try_clone", [], "err")])]
    eng.add_summary(r"^(std::fs::)?File::try_clone$", s_try_clone, front=True)
    eng.add_summary(r"^<(std::fs::)?File as (std::os::fd::|std::os::unix::io::)?IntoRawFd>::into_raw_fd$",
                    lambda e, st, c, a, d: Outcome(OpaqueV("RawFd", "fd_of_" + getattr(a[0], "name", "?")), events=[Event("fd_leak", [getattr(a[0], "name", "?")], None)]), front=True)
    eng.add_drop_hook(r"^(std::fs::)?File$", lambda e, st, v: st.trace.append(Event("fd_close", [getattr(v, "name", "?")], None)) if isinstance(v, OpaqueV) and v.attrs.get("dup") else None)
    fn = fn_named(eng.funcs, "fiemap")
    st = State()
    paths = eng.run(fn.name, [RefV(Cell(OpaqueV("std::fs::File", "infd"))), RefV(Cell(OpaqueV("FiemapReq", "req")))], st)
    ctx.paths += len(paths)
    seen = set()
    for p in paths:
        if p.status != "return":
            ctx.fail("fiemap: path ends in return", "%s %s" % (p.status, p.msg))
            continue
        io = [e for e in p.trace if e.name == "ioctl"]
        en = [e for e in p.trace if e.name == "errno"]
        opened = len([e for e in p.trace if e.name == "fd_open"])
        closed = len([e for e in p.trace if e.name == "fd_close"])
        leaked = [e for e in p.trace if e.name == "fd_leak"]
        (ctx.fail if leaked or opened != closed else ctx.passed)(
            "C20: an extent-map query leaves no descriptor behind (one leaked per call would make open files grow with the number of sparse files)",
            "opened %d, closed %d, ownership given up %d: %s" % (opened, closed, len(leaked), trace_names(p)))
        if any(is_errev(e) and e.name == "try_clone" for e in p.trace):
            (ctx.passed if is_err(p.ret) else ctx.fail)("C04: a failed descriptor duplication makes fiemap fail", str(trace_names(p)))
            continue
        if len(io) != 1 or getattr(io[0].args[0], "name", "") != "fd_of_infd":
            ctx.fail("C19: one FS_IOC_FIEMAP request on the file being mapped", str(trace_names(p)))
            continue
        ctx.lemma(eng, "C19: the request is FS_IOC_FIEMAP", p.pc, io[0].args[1].t == 0xC020660B)
        r = io[0].ret
        if is_ok(p.ret):
            v = p.ret.fields[0]
            if en:
                ctx.lemma(eng, "C05: only EOPNOTSUPP is reported as 'extent mapping unsupported'", p.pc, z3.And(en[0].ret.t == 95, z3.Not(v.t), r.t != 0))
                seen.add("unsupported")
            else:
                ctx.lemma(eng, "C19: success is reported only when the ioctl succeeded", p.pc, z3.And(v.t, r.t == 0))
                seen.add("ok")
        else:
            ctx.lemma(eng, "C04/C05: any other FIEMAP errno is a hard error", p.pc, z3.And(r.t != 0, en[0].ret.t != 95) if en else z3.BoolVal(False))
            seen.add("error")
    for k in ("ok", "unsupported", "error"):
        (ctx.passed if k in seen else ctx.fail)("witness: %s" % k, str(sorted(seen)))
    ctx.bounds = "loop-free; every errno 1..4095"


def lemma_sparse_segments(ctx):
    """next_sparse_segments over the SEEK_DATA/SEEK_HOLE contract (C19, C11, C01)."""
    eng = ctx.engine("libfs", loop_bound=2)
    install_log_off(eng)
    _meta_summaries(eng)
    eng.inline += [r"^(linux::)?lseek$"]
    NXIO = 65536 - 6
    ERRNO = {"NXIO": 6, "NOSYS": 38, "PERM": 1, "XDEV": 18, "IO": 5}

    def errno_t(v):
        if isinstance(v, AggV):
            return v.fields[0].t
        m = re.search(r"Errno::(\w+)$", getattr(v, "name", ""))
        if m and m.group(1) in ERRNO:
            return z3.IntVal(65536 - ERRNO[m.group(1)])
        raise EngineAbort("unknown Errno value %r" % (v,))
    eng.add_summary(r"^<Errno as PartialEq>::eq$", lambda e, st, c, a, d: Outcome(BoolV(errno_t(deref_ref(e, st, a[0])) == errno_t(deref_ref(e, st, a[1])))))
    length = z3.Int("file_len")

    def s_seek(eng, st, callee, args, dty):
        fd = file_id(args[0], eng, st)
        sf = args[1]
        kind = sf.vname
        arg = sf.fields[0]
        off = eng.fresh_int(st, "u64", "seek_%s" % kind.lower())
        errno = eng.fresh_int(st, "u16", "errno")
        nx = AggV("Result", 1, [AggV("Errno", None, [IntV(NXIO, "u16")])], "Err")
        hard = AggV("Result", 1, [AggV("Errno", None, [errno])], "Err")
        ev = lambda r: [Event("seek", [fd, kind, arg], r)]
        outs = []
        if kind == "Start":
            outs.append(Outcome(ok(arg), events=ev(arg)))
        elif kind == "Data":
            outs.append(Outcome(ok(off), [arg.t < length, off.t >= arg.t, off.t < length], events=ev(off),
                                effect=lambda e, s2, a2, off=off: s2.ghost.setdefault("data_at", []).append(off)))
            outs.append(Outcome(nx, [], events=ev("nxio")))   # no data at or after arg (or arg >= len)
        elif kind == "Hole":
            known = st.ghost.get("data_at", [])
            c = [arg.t < length, off.t >= arg.t, off.t <= length]
            for d in known:
                c.append(z3.Implies(arg.t == d.t, off.t > arg.t))   # a data byte is not a hole
            outs.append(Outcome(ok(off), c, events=ev(off)))
            outs.append(Outcome(nx, [arg.t >= length], events=ev("nxio")))
        else:
            raise EngineAbort("unexpected whence %s" % kind)
        outs.append(Outcome(hard, [errno.t != NXIO, errno.t >= 65536 - 4095], events=ev("err")))
        return outs
    eng.add_summary(r"^rustix::fs::seek::<", s_seek)
    fn = fn_named(eng.funcs, "next_sparse_segments")
    st = State()
    st.pc += [length >= 0, length <= OFF_MAX]
    pos = eng.fresh_int(st, "u64", "pos")
    inf = OpaqueV("std::fs::File", "infd")
    meta_len = None
    paths = eng.run(fn.name, [RefV(Cell(inf)), RefV(Cell(OpaqueV("std::fs::File", "outfd"))), pos], st)
    ctx.paths += len(paths)
    seen = set()
    for p in paths:
        if p.status != "return":
            ctx.fail("next_sparse_segments: path ends in return", "%s %s" % (p.status, p.msg))
            continue
        sk = [e for e in p.trace if e.name == "seek"]
        if any(is_errev(e) for e in p.trace if e.name != "seek") or any(isinstance(e.ret, str) and e.ret == "err" for e in sk):
            (ctx.passed if is_err(p.ret) else ctx.fail)("C04/C19: a failing lseek/fstat makes next_sparse_segments fail", str(trace_names(p)))
            continue
        if not is_ok(p.ret):
            ctx.fail("next_sparse_segments: Ok when every call succeeded", str(trace_names(p)))
            continue
        # tie the metadata length the code read (if any) to the model's file length
        pc = list(p.pc)
        for d in z3.z3util.get_vars(z3.And(*pc)) if pc else []:
            if str(d).startswith("meta_infd_len"):
                pc.append(d == length)
        nd, nh = p.ret.fields[0].fields
        data = [e for e in sk if e.args[1] == "Data"]
        hole = [e for e in sk if e.args[1] == "Hole"]
        starts = [e for e in sk if e.args[1] == "Start"]
        if len(data) != 1 or data[0].args[0] != "infd" or len(hole) != 1 or hole[0].args[0] != "infd":
            ctx.fail("C19: one SEEK_DATA and one SEEK_HOLE on the source", str(trace_names(p)))
            continue
        ctx.lemma(eng, "C19: the data search starts at the requested position", pc, data[0].args[2].t == pos.t)
        ctx.lemma(eng, "C19: the hole search starts at the data offset found", pc, hole[0].args[2].t == nd.t)
        ctx.lemma(eng, "C19/C11: segments are ordered: pos <= data <= hole <= len (or pos beyond EOF)", pc,
                  z3.Implies(pos.t <= length, z3.And(pos.t <= nd.t, nd.t <= nh.t, nh.t <= length)))
        ctx.lemma(eng, "C07/C19: the segment walk makes progress while pos < len", pc, z3.Implies(pos.t < length, nh.t > pos.t))
        if data[0].ret == "nxio":
            seen.add("nodata")
            ctx.lemma(eng, "C19: no further data => the segment is the empty one at EOF", pc, z3.And(nd.t == length, nh.t == length))
        else:
            seen.add("data")
            ctx.lemma(eng, "C19: the reported data start is what SEEK_DATA returned", pc, nd.t == data[0].ret.t)
        fds = [e.args[0] for e in starts]
        if sorted(fds) != ["infd", "outfd"]:
            ctx.fail("C01/C11: both descriptors are repositioned to the start of the data segment", str(fds))
        else:
            for e in starts:
                ctx.lemma(eng, "C01/C11: both cursors are set to the data start (holes are skipped, not written)", pc, e.args[2].t == nd.t)
            last_two = [e.args[1] for e in sk[-2:]]
            (ctx.passed if last_two == ["Start", "Start"] else ctx.fail)("C01: repositioning happens after the searches (they move the source cursor)", str([e.args[1] for e in sk]))
    for k in ("data", "nodata"):
        (ctx.passed if k in seen else ctx.fail)("witness: %s" % k, str(sorted(seen)))
    ctx.bounds = "loop-free; any file length <= 2^63-1, any position, SEEK_DATA/SEEK_HOLE answers constrained only by their contract"


def lemma_probably_sparse(ctx):
    eng = ctx.engine("libfs", loop_bound=2)
    install_log_off(eng)
    _meta_summaries(eng)
    fn = fn_named(eng.funcs, "probably_sparse")
    st = State()
    paths = eng.run(fn.name, [RefV(Cell(OpaqueV("std::fs::File", "infd")))], st)
    ctx.paths += len(paths)
    n = 0
    for p in paths:
        if p.status != "return":
            ctx.fail("probably_sparse: path ends in return", "%s %s" % (p.status, p.msg))
            continue
        if is_err(p.ret):
            continue
        n += 1
        vs = {str(d): d for d in z3.z3util.get_vars(z3.And(*p.pc))}
        blocks = [v for k, v in vs.items() if k.startswith("meta_infd_st_blocks")]
        size = [v for k, v in vs.items() if k.startswith("meta_infd_st_size")]
        if not blocks or not size:
            ctx.fail("C11: the sparseness heuristic compares st_blocks with st_size of the source", str(sorted(vs)))
            continue
        ctx.lemma(eng, "C11: a file looks sparse iff st_blocks < st_size / 512", p.pc, p.ret.fields[0].t == (blocks[0] < size[0] / 512))
    (ctx.passed if n else ctx.fail)("witness: probably_sparse success path", "")
    ctx.bounds = "loop-free; any st_blocks, st_size (64-bit)"


def lemma_metadata_helpers(ctx):
    """copy_permissions / copy_timestamps / copy_owner / allocate_file / sync: right source, right target, right value (C10, C18, C01)."""
    eng = ctx.engine("libfs", loop_bound=3)
    install_log_off(eng)
    _meta_summaries(eng)
    S = eng.add_summary

    def s_xattr(eng, st, callee, args, dty):
        return [Outcome(ok(), events=[Event("copy_xattr", [file_id(args[0], eng, st), file_id(args[1], eng, st)], "ok")]),
                Outcome(err("errors::Error"), events=[Event("copy_xattr", [file_id(args[0], eng, st), file_id(args[1], eng, st)], "err")])]
    S(r"^copy_xattr$", s_xattr)

    def fileop(name):
        def h(eng, st, callee, args, dty):
            a = [file_id(args[0], eng, st)] + list(args[1:])
            return [Outcome(ok(), events=[Event(name, a, "ok")]), Outcome(err("std::io::Error"), events=[Event(name, a, "err")])]
        return h
    S(r"^(std::fs::)?File::set_permissions$", fileop("set_permissions"))
    S(r"^(std::fs::)?File::set_times$", fileop("set_times"))
    S(r"^std::os::unix::fs::fchown::<", fileop("fchown"))

    def rx(name):
        def h(eng, st, callee, args, dty):
            a = [file_id(args[0], eng, st)] + list(args[1:])
            return [Outcome(ok(), events=[Event(name, a, "ok")]),
                    Outcome(AggV("Result", 1, [OpaqueV("Errno")], "Err"), events=[Event(name, a, "err")])]
        return h
    S(r"^rustix::fs::ftruncate::<", rx("ftruncate"))
    S(r"^rustix::fs::fsync::<", rx("fsync"))
    S(r"^(std::fs::)?FileTimes::new$", lambda e, st, c, a, d: Outcome(OpaqueV("FileTimes", None, {})))

    def s_ft(which):
        def h(eng, st, callee, args, dty):
            ft = args[0]
            n = OpaqueV("FileTimes", None, dict(ft.attrs))
            n.attrs[which] = args[1]
            return Outcome(n)
        return h
    S(r"^(std::fs::)?FileTimes::set_accessed$", s_ft("accessed"))
    S(r"^(std::fs::)?FileTimes::set_modified$", s_ft("modified"))
    two = [RefV(Cell(OpaqueV("std::fs::File", "infd"))), RefV(Cell(OpaqueV("std::fs::File", "outfd")))]

    def run(name, args):
        fn = fn_named(eng.funcs, name)
        ps = eng.run(fn.name, args, State())
        ctx.paths += len(ps)
        return ps
    # ---- copy_permissions
    okc = 0
    for p in run("copy_permissions", two):
        if p.status != "return":
            ctx.fail("copy_permissions: path ends in return", p.msg)
            continue
        fatal = [e for e in p.trace if is_errev(e) and e.name != "copy_xattr"]
        if fatal:
            (ctx.passed if is_err(p.ret) else ctx.fail)("C04/C10: a failing fstat/fchmod makes copy_permissions fail", str(trace_names(p)))
            continue
        sp = [e for e in p.trace if e.name == "set_permissions"]
        xa = [e for e in p.trace if e.name == "copy_xattr"]
        if len(xa) != 1 or xa[0].args != ["infd", "outfd"]:
            ctx.fail("C10: extended attributes are copied from the source to the destination", str(trace_names(p)))
        if len(xa) == 1 and len(sp) == 1:
            names = [e.name for e in p.trace]
            (ctx.passed if names.index("copy_xattr") < names.index("set_permissions") else ctx.fail)(
                "C10: user xattrs are written before the source's mode is applied (fsetxattr(user.*) needs write permission by mode: after fchmod to a read-only "
                "mode every xattr of an unprivileged copy is refused, with only a warning)", str(trace_names(p)))
        pm = sp[0].args[1] if len(sp) == 1 else None
        src_mode = None
        for e in p.trace:
            pass
        if len(sp) != 1 or sp[0].args[0] != "outfd" or not isinstance(pm, OpaqueV) or not isinstance(pm.attrs.get("mode"), IntV):
            ctx.fail("C10: the destination receives the source's permission bits (full st_mode)", repr(sp[0].args if sp else None))
        else:
            okc += 1
            applied = pm.attrs["mode"].t
            vs = {str(d): d for d in z3.z3util.get_vars(applied)}
            srcv = [v for k, v in vs.items() if k.startswith("meta_infd_st_mode")]
            if not srcv:
                ctx.fail("C10: the destination receives the source's permission bits (full st_mode)", "mode applied does not come from the source's metadata: %s" % applied)
            else:
                ctx.lemma(eng, "C10: all twelve permission bits (rwx for u/g/o, set-uid, set-gid, sticky) of the source reach the destination", p.pc,
                          applied % 4096 == srcv[0] % 4096)
        if not is_ok(p.ret):
            ctx.fail("C10: xattr failures are tolerated (warning), everything else succeeded => Ok", str(trace_names(p)))
    (ctx.passed if okc else ctx.fail)("witness: copy_permissions success", "")
    # ---- copy_timestamps
    okc = 0
    for p in run("copy_timestamps", two):
        if p.status != "return":
            ctx.fail("copy_timestamps: path ends in return", p.msg)
            continue
        if any(is_errev(e) for e in p.trace):
            (ctx.passed if is_err(p.ret) else ctx.fail)("C04/C10: a failing fstat/futimens makes copy_timestamps fail", str(trace_names(p)))
            continue
        stt = [e for e in p.trace if e.name == "set_times"]
        good = len(stt) == 1 and stt[0].args[0] == "outfd"
        if good:
            ft = stt[0].args[1]
            for which in ("accessed", "modified"):
                v = ft.attrs.get(which)
                if not (isinstance(v, OpaqueV) and v.attrs.get("of") == "meta_infd" and v.attrs.get("which") == which):
                    good = False
        if good:
            okc += 1
            ctx.passed("C10: the destination receives the source's atime and mtime (each its own, full resolution)")
        else:
            ctx.fail("C10: the destination receives the source's atime and mtime (each its own, full resolution)", repr(stt[0].args if stt else None))
    (ctx.passed if okc else ctx.fail)("witness: copy_timestamps success", "")
    # ---- copy_owner
    okc = 0
    for p in run("copy_owner", two):
        if p.status != "return":
            ctx.fail("copy_owner: path ends in return", p.msg)
            continue
        if any(is_errev(e) for e in p.trace):
            (ctx.passed if is_err(p.ret) else ctx.fail)("C10: a failing fstat/fchown makes copy_owner fail (the caller downgrades it to a warning)", str(trace_names(p)))
            continue
        ch = [e for e in p.trace if e.name == "fchown"]
        good = len(ch) == 1 and ch[0].args[0] == "outfd"
        if good:
            u, g = ch[0].args[1], ch[0].args[2]
            good = (isinstance(u, AggV) and u.vname == "Some" and str(u.fields[0].t).startswith("meta_infd_uid")
                    and isinstance(g, AggV) and g.vname == "Some" and str(g.fields[0].t).startswith("meta_infd_gid"))
        if good:
            okc += 1
            ctx.passed("C10: the destination is given the source's uid and gid")
        else:
            ctx.fail("C10: the destination is given the source's uid and gid", repr(ch[0].args if ch else None))
    (ctx.passed if okc else ctx.fail)("witness: copy_owner success", "")
    # ---- allocate_file / sync
    ln = IntV(z3.Int("want_len"), "u64")
    for p in run("allocate_file", [two[1], ln]):
        tr = [e for e in p.trace if e.name == "ftruncate"]
        if len(tr) != 1 or tr[0].args[0] != "outfd":
            ctx.fail("C01/C11: allocate_file sizes the given descriptor with ftruncate", str(trace_names(p)))
        else:
            ctx.lemma(eng, "C01/C11: allocate_file sets exactly the requested length", p.pc, tr[0].args[1].t == ln.t)
            if is_errev(tr[0]) and not is_err(p.ret):
                ctx.fail("C04: a failing ftruncate makes allocate_file fail", "")
    for p in run("sync", [two[1]]):
        fs = [e for e in p.trace if e.name == "fsync"]
        if len(fs) != 1 or fs[0].args[0] != "outfd":
            ctx.fail("C18: sync issues fsync on the given descriptor", str(trace_names(p)))
        elif is_errev(fs[0]) and not is_err(p.ret):
            ctx.fail("C04/C18: a failing fsync makes sync fail", "")
        else:
            ctx.passed("C18: sync issues fsync on the given descriptor")
    ctx.bounds = "loop-free; every call may fail"


def validate_merge_vectors(ctx):
    """translator validation: the repository's own unit-test vectors for merge_extents are pushed through the
    MIR interpreter concretely and compared with the outputs the test asserts for the real function"""
    import os
    src = open(os.path.join(ctx.scr.root, "mirsrc", "libfs/src/common.rs")).read()
    m = re.search(r"fn test_extent_merge\(\).*?\n    \}\n", src, re.S)
    if not m:
        return 0
    body = m.group(0)
    cases = []
    for am in re.finditer(r"assert_eq!\(\s*merge_extents\(\s*vec!\((.*?)\)\)\?,\s*vec!\((.*?)\)\s*\);", body, re.S):
        rng = lambda t: [(int(a), int(b)) for a, b in re.findall(r"\((\d+)\.\.(\d+)\)\.into\(\)", t)]
        cases.append((rng(am.group(1)), rng(am.group(2))))
    n = 0
    for inp, exp in cases:
        eng = ctx.engine("libfs", loop_bound=len(inp) + 2)
        install_log_off(eng)
        _vec(eng)
        fn = fn_named(eng.funcs, "merge_extents")
        items = [AggV("Extent", None, [IntV(a, "u64"), IntV(b, "u64"), BoolV(False)]) for a, b in inp]
        paths = eng.run(fn.name, [OpaqueV("Vec<Extent>", None, {"items": items})], State())
        if len(paths) != 1 or paths[0].status != "return" or not is_ok(paths[0].ret):
            ctx.fail("translator validation: merge_extents test vector runs to a single Ok result", "%r -> %d paths" % (inp, len(paths)))
            continue
        out = [(z3.simplify(o.fields[0].t).as_long(), z3.simplify(o.fields[1].t).as_long()) for o in paths[0].ret.fields[0].attrs["items"]]
        if out != exp:
            ctx.fail("translator validation: the MIR interpreter reproduces the repository's merge_extents test vectors", "%r: got %r, test expects %r" % (inp, out, exp))
        else:
            n += 1
    if cases:
        (ctx.passed if n == len(cases) else ctx.fail)("translator validation: the MIR interpreter reproduces the repository's merge_extents test vectors", "%d/%d" % (n, len(cases)))
    ctx.validated = getattr(ctx, "validated", 0) + n
    return n


def _buf_model(eng):
    """Vec<u8> buffers and slices of them: (buffer identity, start, length) -- contents are Kani's business"""
    S = eng.add_summary
    S(r"^std::vec::from_elem::<u8>$", lambda e, st, c, a, d: Outcome(OpaqueV("Vec<u8>", "buf", {"buf": "buf", "lo": IntV(0, "usize"), "len": a[1]})))

    def s_index(eng, st, callee, args, dty):
        v = deref_ref(eng, st, args[0])
        r = args[1]                      # RangeTo { end }
        end = r.fields[0]
        sl = OpaqueV("[u8]", None, {"buf": v.attrs["buf"], "lo": v.attrs["lo"], "len": end})
        # slicing beyond the buffer panics
        return [Outcome(RefV(Cell(sl)), [end.t <= v.attrs["len"].t]),
                Outcome(diverge="slice index out of range", conds=[end.t > v.attrs["len"].t])]
    S(r"^<Vec<u8> as Index(Mut)?<RangeTo<usize>>>::index(_mut)?$", s_index)


def lemma_uspace_loops(ctx):
    """copy_range_uspace / copy_bytes_uspace: one inductive step from an arbitrary loop state, counts and offsets only
    (the byte-accurate, bounded version of the same claims is the Kani harness set of C05)."""
    from props.cfg import loop_header
    from props.p_copy import _loop_obligations
    # ---------------- copy_range_uspace
    eng = ctx.engine("libfs", loop_bound=2)
    install_log_off(eng)
    _buf_model(eng)

    def s_pread(eng, st, callee, args, dty):
        b = deref_ref(eng, st, args[1])
        k = eng.fresh_int(st, "usize", "rlen")
        ev = [file_id(args[0], eng, st), b.attrs["buf"], b.attrs["lo"], b.attrs["len"], args[2]]
        return [Outcome(ok(k), [k.t <= b.attrs["len"].t], events=[Event("pread", ev, k)]),
                Outcome(AggV("Result", 1, [OpaqueV("Errno")], "Err"), events=[Event("pread", ev, "err")])]
    eng.add_summary(r"^rustix::io::pread::<", s_pread)

    def s_pwrite(eng, st, callee, args, dty):
        b = deref_ref(eng, st, args[1])
        k = eng.fresh_int(st, "usize", "wlen")
        ev = [file_id(args[0], eng, st), b.attrs["buf"], b.attrs["lo"], b.attrs["len"], args[2]]
        return [Outcome(ok(k), [k.t <= b.attrs["len"].t], events=[Event("pwrite", ev, k)]),
                Outcome(AggV("Result", 1, [OpaqueV("Errno")], "Err"), events=[Event("pwrite", ev, "err")])]
    eng.add_summary(r"^rustix::io::pwrite::<", s_pwrite)
    # the same transfers through the descriptor's shared cursor (seek + read/write): position-wise they are modelled
    # like pread/pwrite at the cursor, but flagged -- block jobs of one file share both descriptors (C06)
    def _cursor(eng, st, f):
        k = "cursor:" + str(file_id(f, eng, st))
        if k not in st.ghost:
            st.ghost[k] = eng.fresh_int(st, "u64", "cursor")
        return k

    def s_seek(eng, st, callee, args, dty):
        k = _cursor(eng, st, args[0])
        w = args[1]
        if not (isinstance(w, AggV) and w.vname == "Start"):
            raise EngineAbort("seek: only SeekFrom::Start is modelled")
        pos = w.fields[0]
        st.ghost[k] = pos
        return [Outcome(ok(pos), events=[Event("seek", [file_id(args[0], eng, st), pos], "ok")]),
                Outcome(AggV("Result", 1, [OpaqueV("std::io::Error", None, {"kind": "Other"})], "Err"), events=[Event("seek", [file_id(args[0], eng, st), pos], "err")])]
    eng.add_summary(r"^<&(std::fs::)?File as (std::io::)?Seek>::seek$|^<(std::fs::)?File as (std::io::)?Seek>::seek$", s_seek)

    def s_cur_io(name):
        def h(eng, st, callee, args, dty):
            b = deref_ref(eng, st, args[1])
            k = eng.fresh_int(st, "usize", "rlen" if name == "pread" else "wlen")
            ck = _cursor(eng, st, args[0])
            pos = st.ghost[ck]
            ev = [file_id(args[0], eng, st), b.attrs["buf"], b.attrs["lo"], b.attrs["len"], pos, "cursor"]
            st.ghost[ck] = IntV(pos.t + k.t, "u64")
            return [Outcome(ok(k), [k.t <= b.attrs["len"].t], events=[Event(name, ev, k)]),
                    Outcome(AggV("Result", 1, [OpaqueV("std::io::Error", None, {"kind": "Other"})], "Err"), events=[Event(name, ev, "err")])]
        return h
    eng.add_summary(r"^<&?(std::fs::)?File as (std::io::)?Read>::read$", s_cur_io("pread"))
    eng.add_summary(r"^<&?(std::fs::)?File as (std::io::)?Write>::write$", s_cur_io("pwrite"))
    fn = fn_named(eng.funcs, "copy_range_uspace")
    st = State()
    n = eng.fresh_int(st, "usize", "nbytes")
    off = eng.fresh_int(st, "usize", "off")
    st.pc += [n.t >= 1, off.t + n.t <= OFF_MAX]
    l_written = dbg_local(fn, "written")
    spec = LoopSpec(fn, loop_header(fn), lambda e, s, fr: fr.locals[l_written].v.t <= n.t)
    install_loop(eng, spec)
    paths = eng.run(fn.name, [RefV(Cell(OpaqueV("std::fs::File", "infd"))), RefV(Cell(OpaqueV("std::fs::File", "outfd"))), n, off], st)
    ctx.paths += len(paths)
    _loop_obligations(ctx, spec, "copy_range_uspace invariant written<=nbytes")
    back = 0
    for p in paths:
        if p.status == "panic":
            ctx.fail("C05: copy_range_uspace does not panic (no out-of-range slice, no overflow)", p.msg)
            continue
        evs = list(p.trace)
        idx = [i for i, e in enumerate(evs) if e.name == "loop-havoc"]
        it = evs[idx[0] + 1:] if idx else evs
        w0 = evs[idx[0]].info["locals"][l_written] if idx else IntV(0, "usize")
        rd = [e for e in it if e.name == "pread"]
        wr = [e for e in it if e.name == "pwrite"]
        shared = [e for e in it if e.name == "seek" or (e.name in ("pread", "pwrite") and e.args[-1] == "cursor")]
        (ctx.fail if shared else ctx.passed)("C06: the block fallback is offset-addressed (pread/pwrite): concurrent block jobs of one file never "
                                             "move or depend on the descriptors' shared cursor", str(trace_names(p)))
        for e in rd:
            ctx.lemma(eng, "C05: the fallback reads from the source at off+written, at most the remaining bytes, at least one", p.pc,
                      z3.And(e.args[4].t == off.t + w0.t, e.args[3].t >= 1, e.args[3].t <= n.t - w0.t, e.args[2].t == 0))
            if e.args[0] != "infd":
                ctx.fail("C05: the fallback reads from the source descriptor", str(e.args[0]))
        for e in wr:
            r = rd[0].ret
            ctx.lemma(eng, "C05: the fallback writes exactly the bytes just read (same buffer start, rlen bytes) at the same offset", p.pc,
                      z3.And(e.args[4].t == off.t + w0.t, e.args[3].t == r.t, e.args[2].t == 0))
            if e.args[0] != "outfd":
                ctx.fail("C05: the fallback writes to the destination descriptor", str(e.args[0]))
        if p.status == "loop-back":
            back += 1
            fr = p.frames[-1]
            r, w = rd[0].ret, wr[0].ret
            ctx.lemma(eng, "C05: an iteration that continues wrote everything it read and advances by exactly that count (>= 1)", p.pc,
                      z3.And(w.t == r.t, r.t >= 1, fr.locals[l_written].v.t == w0.t + r.t))
        elif p.status == "return":
            if is_ok(p.ret):
                # the contract copy_file_offset's callers rely on (same as copy_file_range's): everything, or -- only when a read
                # returned 0, i.e. at end of file -- what was copied so far
                eof = [e for e in rd if isinstance(e.ret, IntV)]
                at_eof = z3.Or(*[e.ret.t == 0 for e in eof]) if eof else z3.BoolVal(False)
                ctx.lemma(eng, "C05: copy_range_uspace returns Ok(k) with k = the whole request, or -- only after a zero-length read, i.e. at end of file -- the bytes copied so far",
                          p.pc, z3.Or(p.ret.fields[0].t == n.t, z3.And(at_eof, p.ret.fields[0].t == w0.t)))
                for e in rd + wr:
                    if is_errev(e):
                        ctx.fail("C04/C05: a failed pread/pwrite makes copy_range_uspace fail", str(trace_names(p)))
            else:
                # errors are legitimate only for: failed call, zero read (premature EOF), short write
                why = [e for e in it if e.name in ("pread", "pwrite", "seek") and is_errev(e)]
                if not why:
                    r = rd[0].ret if rd else None
                    w = wr[0].ret if wr else None
                    claim = (w.t < r.t) if (r is not None and w is not None) else z3.BoolVal(False)
                    ctx.lemma(eng, "C05/C06: copy_range_uspace fails without a failed call only on a short write (end of file is a short count, as for the kernel copy: both drivers must agree)",
                              p.pc, claim, key="uspace-range:eof-is-an-error")
    (ctx.passed if back else ctx.fail)("witness: copy_range_uspace loop body", "")
    # ---------------- copy_bytes_uspace
    eng = ctx.engine("libfs", loop_bound=2)
    install_log_off(eng)
    _buf_model(eng)

    def s_read(eng, st, callee, args, dty):
        b = deref_ref(eng, st, args[1])
        k = eng.fresh_int(st, "usize", "len")
        f = deref_ref(eng, st, args[0])
        ev = [file_id(f, eng, st), b.attrs["buf"], b.attrs["lo"], b.attrs["len"]]
        intr = OpaqueV("std::io::Error", None, {"kind": "Interrupted"})
        other = OpaqueV("std::io::Error", None, {"kind": "Other"})
        return [Outcome(ok(k), [k.t <= b.attrs["len"].t], events=[Event("read", ev, k)]),
                Outcome(AggV("Result", 1, [intr], "Err"), events=[Event("read", ev, "eintr")]),
                Outcome(AggV("Result", 1, [other], "Err"), events=[Event("read", ev, "err")])]
    eng.add_summary(r"^<&File as std::io::Read>::read$", s_read)

    def s_write_all(eng, st, callee, args, dty):
        b = deref_ref(eng, st, args[1])
        f = deref_ref(eng, st, args[0])
        ev = [file_id(f, eng, st), b.attrs["buf"], b.attrs["lo"], b.attrs["len"]]
        return [Outcome(ok(), events=[Event("write_all", ev, "ok")]),
                Outcome(AggV("Result", 1, [OpaqueV("std::io::Error", None, {"kind": "Other"})], "Err"), events=[Event("write_all", ev, "err")])]
    eng.add_summary(r"^<&File as std::io::Write>::write_all$", s_write_all)
    eng.add_summary(r"^std::io::Error::kind$", lambda e, st, c, a, d: Outcome(OpaqueV("ErrorKind", None, {"kind": deref_ref(e, st, a[0]).attrs["kind"]})))

    def s_kind_eq(eng, st, callee, args, dty):
        def kind(v):
            v = deref_ref(eng, st, v)
            if isinstance(v, OpaqueV) and "kind" in v.attrs:
                return v.attrs["kind"]
            if isinstance(v, AggV):
                return v.vname if isinstance(v.vname, str) else v.ty.split("::")[-1]
            return re.sub(r".*::", "", getattr(v, "name", ""))
        return Outcome(BoolV(kind(args[0]) == kind(args[1])))
    eng.add_summary(r"^<ErrorKind as PartialEq>::eq$", s_kind_eq)
    fn = fn_named(eng.funcs, "copy_bytes_uspace")
    st = State()
    n = eng.fresh_int(st, "usize", "nbytes")
    st.pc += [n.t >= 1]
    l_written = dbg_local(fn, "written")
    spec = LoopSpec(fn, loop_header(fn), lambda e, s, fr: fr.locals[l_written].v.t <= n.t)
    install_loop(eng, spec)
    paths = eng.run(fn.name, [RefV(Cell(OpaqueV("std::fs::File", "infd"))), RefV(Cell(OpaqueV("std::fs::File", "outfd"))), n], st)
    ctx.paths += len(paths)
    _loop_obligations(ctx, spec, "copy_bytes_uspace invariant written<=nbytes")
    back = eintr = 0
    for p in paths:
        if p.status == "panic":
            ctx.fail("C05: copy_bytes_uspace does not panic", p.msg)
            continue
        evs = list(p.trace)
        idx = [i for i, e in enumerate(evs) if e.name == "loop-havoc"]
        it = evs[idx[0] + 1:] if idx else evs
        w0 = evs[idx[0]].info["locals"][l_written] if idx else IntV(0, "usize")
        rd = [e for e in it if e.name == "read"]
        wr = [e for e in it if e.name == "write_all"]
        for e in rd:
            ctx.lemma(eng, "C05: the cursor fallback reads at most the remaining bytes, at least one, into the buffer start", p.pc,
                      z3.And(e.args[3].t >= 1, e.args[3].t <= n.t - w0.t, e.args[2].t == 0))
            if e.args[0] != "infd":
                ctx.fail("C05: the cursor fallback reads from the source descriptor", str(e.args[0]))
        for e in wr:
            if not isinstance(rd[0].ret, IntV):
                ctx.fail("C05: nothing is written after a failed read", str(trace_names(p)))
                continue
            ctx.lemma(eng, "C05: the cursor fallback writes exactly the bytes just read (write_all of buf[..len])", p.pc,
                      z3.And(e.args[3].t == rd[0].ret.t, e.args[2].t == 0))
            if e.args[0] != "outfd":
                ctx.fail("C05: the cursor fallback writes to the destination descriptor", str(e.args[0]))
        if p.status == "loop-back":
            fr = p.frames[-1]
            if rd and rd[0].ret == "eintr":
                eintr += 1
                ctx.lemma(eng, "C05: an interrupted read is retried without counting or writing anything", p.pc, fr.locals[l_written].v.t == w0.t)
                if wr:
                    ctx.fail("C05: an interrupted read is retried without counting or writing anything", str(trace_names(p)))
            else:
                back += 1
                ctx.lemma(eng, "C05: a completed iteration advances by exactly the bytes read and written (>= 1)", p.pc,
                          z3.And(rd[0].ret.t >= 1, fr.locals[l_written].v.t == w0.t + rd[0].ret.t))
                if len(wr) != 1:
                    ctx.fail("C05: every successful read is followed by one write_all", str(trace_names(p)))
        elif p.status == "return":
            if is_ok(p.ret):
                ctx.lemma(eng, "C05/C07: copy_bytes_uspace returns Ok only with every requested byte copied (never a zero count: the caller's loop relies on progress)", p.pc, p.ret.fields[0].t == n.t)
            bad = [e for e in it if isinstance(e.ret, str) and e.ret == "err"]
            if bad and not is_err(p.ret):
                ctx.fail("C04/C05: a failed read/write makes copy_bytes_uspace fail", str(trace_names(p)))
    (ctx.passed if back else ctx.fail)("witness: copy_bytes_uspace loop body", "")
    (ctx.passed if eintr else ctx.fail)("witness: EINTR retry path", "")
    ctx.bounds = "one inductive step from an arbitrary loop state: any request size, any offset, any short read/write count, EINTR, failures"


def lemma_is_same_file(ctx):
    """libfs::is_same_file: the identity test CopyHandle::new and the workers' special-file arm rely on (C03).
    Both paths are resolved *through* symbolic links (stat, not lstat) -- a destination that is a link to the source is
    the source -- and the answer is `same st_ino and same st_dev`, each taken from the right path."""
    from props.env import install_env, fs_fact
    eng = ctx.engine("libfs", loop_bound=2)
    install_env(ctx, eng)

    def ident(which):
        def h(eng, st, callee, args, dty):
            m = deref_ref(eng, st, args[0])
            if not (isinstance(m, OpaqueV) and "path" in m.attrs):
                raise EngineAbort("ino()/dev() on a metadata value that does not come from a path")
            how = "stat" if m.attrs["follow"] else "lstat"
            return Outcome(IntV(z3.Int("%s_%s_%s" % (which, how, re.sub(r"\W+", "_", m.attrs["path"]))), "u64"),
                           events=[Event("Metadata::" + which, [m.attrs["path"], how], None)])
        return h
    eng.add_summary(r"MetadataExt>::(st_)?ino$", ident("ino"))
    eng.add_summary(r"MetadataExt>::(st_)?dev$", ident("dev"))
    fn = fn_named(eng.funcs, "is_same_file")
    paths = eng.run(fn.name, [RefV(Cell(OpaqueV("Path", "src_path"))), RefV(Cell(OpaqueV("Path", "dst_path")))], State())
    ctx.paths += len(paths)
    n_ok = 0
    for p in paths:
        names = trace_names(p)
        if p.status != "return":
            ctx.fail("is_same_file: returns", "%s %s %s" % (p.status, p.msg, names))
            continue
        stats = [e for e in p.trace if e.name in ("Path::metadata", "Path::symlink_metadata")]
        nm = "C03: is_same_file resolves the destination through symbolic links (stat): a destination that is a link to the source is the source"
        dst_l = [e for e in stats if e.name == "Path::symlink_metadata" and getattr(e.args[0], "name", "") == "dst_path"]
        (ctx.fail if dst_l else ctx.passed)(nm, str(names))
        failed = [e for e in stats if e.ret in ("err", "absent")]
        if failed:
            (ctx.passed if is_err(p.ret) else ctx.fail)("C03/C04: a path that cannot be examined makes is_same_file fail (never 'different')", str(names))
            continue
        if not is_ok(p.ret):
            ctx.fail("is_same_file: Ok when both paths could be examined", str(names))
            continue
        n_ok += 1
        who = sorted(getattr(e.args[0], "name", "?") for e in stats)
        if who != ["dst_path", "src_path"]:
            ctx.fail("C03: is_same_file examines exactly its two arguments", str(who))
            continue
        how = {getattr(e.args[0], "name", "?"): ("stat" if e.name == "Path::metadata" else "lstat") for e in stats}
        v = lambda w, path: z3.Int("%s_%s_%s" % (w, how[path], path))
        same = z3.And(v("ino", "src_path") == v("ino", "dst_path"), v("dev", "src_path") == v("dev", "dst_path"))
        r = p.ret.fields[0]
        ctx.lemma(eng, "C03: is_same_file answers exactly 'same inode number and same device', each read from its own path", p.pc, r.t == same)
    (ctx.passed if n_ok else ctx.fail)("witness: is_same_file success path", "")
    ctx.bounds = "loop-free; both paths arbitrary, every stat may fail"


def lemma_copy_xattr(ctx):
    """copy_xattr: every attribute the source lists is offered to the destination, whatever happens to the others (C10).
    One attribute that cannot be set (security.* as non-root, a value too large for the destination) must not cost the rest."""
    from summaries import list_iter
    eng = ctx.engine("libfs", loop_bound=4)
    install_log_off(eng)
    S = eng.add_summary
    attrs = [OpaqueV("OsString", "attr0"), OpaqueV("OsString", "attr1")]

    def s_list(eng, st, callee, args, dty):
        return [Outcome(ok(list_iter(list(attrs))), events=[Event("list_xattr", [file_id(args[0], eng, st)], "ok")]),
                Outcome(err("std::io::Error"), events=[Event("list_xattr", [file_id(args[0], eng, st)], "err")])]
    S(r"FileExt>::list_xattr$", s_list)

    def nm(eng, st, v):
        v = deref_ref(eng, st, v)
        return getattr(v, "name", repr(v))

    def s_get(eng, st, callee, args, dty):
        a = nm(eng, st, args[1])
        val = OpaqueV("Vec<u8>", "value_of_" + a, {"items": []})
        who = file_id(args[0], eng, st)
        return [Outcome(ok(AggV("Option", 1, [val], "Some")), events=[Event("get_xattr", [who, a], "some")]),
                Outcome(ok(AggV("Option", 0, [], "None")), events=[Event("get_xattr", [who, a], "none")]),
                Outcome(err("std::io::Error"), events=[Event("get_xattr", [who, a], "err")])]
    S(r"FileExt>::get_xattr::<", s_get)

    def s_set(eng, st, callee, args, dty):
        a = nm(eng, st, args[1])
        who = file_id(args[0], eng, st)
        return [Outcome(ok(), events=[Event("set_xattr", [who, a], "ok")]), Outcome(err("std::io::Error"), events=[Event("set_xattr", [who, a], "err")])]
    S(r"FileExt>::set_xattr::<", s_set)
    S(r"^Vec::<u8>::as_slice$|^<Vec<u8> as Deref>::deref$", lambda e, st, c, a, d: Outcome(a[0]))
    fn = fn_named(eng.funcs, "copy_xattr")
    paths = eng.run(fn.name, [RefV(Cell(OpaqueV("std::fs::File", "infd"))), RefV(Cell(OpaqueV("std::fs::File", "outfd")))], State())
    ctx.paths += len(paths)
    seen_partial = 0
    for p in paths:
        names = trace_names(p)
        if p.status != "return":
            ctx.fail("copy_xattr: path ends in return", "%s %s %s" % (p.status, p.msg, names))
            continue
        ls = [e for e in p.trace if e.name == "list_xattr"]
        if not ls or ls[0].ret != "ok":
            continue
        gets = {e.args[1]: e for e in p.trace if e.name == "get_xattr"}
        sets = {e.args[1]: e for e in p.trace if e.name == "set_xattr"}
        for e in list(gets.values()) + list(sets.values()):
            want = "infd" if e.name == "get_xattr" else "outfd"
            if e.args[0] != want:
                ctx.fail("C10: extended attributes are read from the source and written to the destination", repr(e.args))
        failed_set = [a for a, e in sets.items() if e.ret == "err"]
        failed_get = [a for a, e in gets.items() if e.ret == "err"]
        if failed_set and not failed_get:
            seen_partial += 1
            missing = [a.name for a in attrs if a.name not in gets]
            unset = [a for a, e in gets.items() if e.ret == "some" and a not in sets]
            if missing or unset:
                ctx.fail("C10: an attribute that cannot be set does not stop the remaining attributes from being copied",
                         "failed: %s; never looked at: %s; read but not set: %s" % (failed_set, missing, unset), key="xattr:first-failure-stops-the-rest")
            else:
                ctx.passed("C10: an attribute that cannot be set does not stop the remaining attributes from being copied")
            (ctx.passed if is_err(p.ret) else ctx.fail)("C04/C10: a failed set_xattr is reported to the caller (which warns)", str(names))
        if not failed_set and not failed_get and is_ok(p.ret):
            for a in attrs:
                g = gets.get(a.name)
                if g is None or (g.ret == "some" and a.name not in sets):
                    ctx.fail("C10: every listed attribute with a value is set on the destination", str(names))
    (ctx.passed if seen_partial else ctx.fail)("witness: a path where one set_xattr fails", "")
    ctx.bounds = "two listed attributes; each get may yield a value, nothing or an error; each set may fail"
