"""Helpers shared by the lemma modules."""
import re

import z3

from sym import (AggV, BoolV, Cell, EngineAbort, Event, IntV, MovedV, OpaqueV, Outcome, RefV, State, StrV, UnitV,
                 LoopSpec, install_loop, natural_loop)
from summaries import deref_ref, variants


def fn_named(funcs, suffix, contains=None):
    c = [n for n in funcs if n == suffix or n.endswith("::" + suffix)]
    if contains:
        c = [n for n in c if contains in n]
    if len(c) != 1:
        raise EngineAbort("function %r not found uniquely in MIR (%d candidates)" % (suffix, len(c)))
    return funcs[c[0]]


def dbg_local(fn, name):
    v = fn.debug.get(name)
    m = re.match(r"^_(\d+)$", v or "")
    if not m:
        raise EngineAbort("no local for source variable %r in %s (%r)" % (name, fn.name, v))
    return int(m.group(1))


def ok(v=None):
    return AggV("Result", 0, [v if v is not None else UnitV()], "Ok")


def err(ty="Error", name=None):
    return AggV("Result", 1, [OpaqueV(ty, name)], "Err")


def is_ok(v):
    return isinstance(v, AggV) and v.vname == "Ok"


def is_err(v):
    return isinstance(v, AggV) and v.vname == "Err"


def ext_fallible(name, ret_ok=None, err_ty="Error", record=True, argsel=None):
    """environment call that either succeeds (returning ret_ok(eng, st, args)) or fails"""
    def h(eng, st, callee, args, dty):
        a = argsel(args) if argsel else args
        r = ret_ok(eng, st, args) if ret_ok else UnitV()
        return [Outcome(ok(r), events=[Event(name, a, "ok")] if record else []),
                Outcome(err(err_ty), events=[Event(name, a, "err")] if record else [])]
    return h


def ext_infallible(name, ret=None, record=True):
    def h(eng, st, callee, args, dty):
        r = ret(eng, st, args, dty) if ret else UnitV()
        return Outcome(r, events=[Event(name, args, None)] if record else [])
    return h


def install_log_off(eng):
    """logging is disabled: `Level <= max_level()` is false, so no log record is built"""
    eng.add_summary(r"^(log::)?max_level$", lambda e, st, c, a, d: Outcome(OpaqueV("LevelFilter", "maxlevel")))
    eng.add_summary(r"^<(log::)?Level as PartialOrd<(log::)?LevelFilter>>::le$", lambda e, st, c, a, d: Outcome(BoolV(False)))
    eng.add_summary(r"^log::__private_api::", lambda e, st, c, a, d: Outcome(OpaqueV("log", None)))


def config_field(eng, st, cfg, fn_or_idx, ty):
    """read field of the (lazily materialised) Config behind an Arc<Config>/&Config"""
    raise NotImplementedError


def trace_names(st):
    return [e.name + ((":" + e.ret) if isinstance(e.ret, str) else "") for e in st.trace]


def summarize_paths(paths):
    out = {}
    for p in paths:
        out[p.status] = out.get(p.status, 0) + 1
    return out


CONFIG_TYPES = {"workers": "usize", "block_size": "u64", "gitignore": "bool", "no_clobber": "bool",
                "no_perms": "bool", "no_timestamps": "bool", "ownership": "bool", "dereference": "bool",
                "no_target_directory": "bool", "fsync": "bool", "reflink": "Reflink", "backup": "Backup"}


def mk_config(ctx, eng, st, fixed=None):
    """symbolic Config (every field a solver variable unless fixed); returns (cfg value, {name: value})"""
    cfg = OpaqueV("config::Config", "cfg")
    vals = {}
    for name in ctx.structs()["Config"]:
        ty = CONFIG_TYPES.get(name)
        if ty is None:
            continue
        if fixed and name in fixed:
            v = fixed[name]
        elif ty in ("Reflink", "Backup"):
            v = OpaqueV(ty, "cfg_" + name)
            eng.discriminant(st, v)
        else:
            v = eng.fresh(st, ty, "cfg_" + name)
        cfg.attrs[("f", None, ctx.field("Config", name))] = v
        vals[name] = v
    return cfg, vals


def mk_arc(inner, ty="Arc<?>", name=None, rc=1):
    return OpaqueV(ty, name, {"inner": Cell(inner), "rc": Cell(rc)})


def mk_handle(ctx, eng, st, cfg):
    """symbolic CopyHandle {infd, outfd, metadata, config}"""
    h = OpaqueV("operations::CopyHandle", "handle")
    meta = OpaqueV("std::fs::Metadata", "src_meta")
    # the handle's metadata is the source descriptor's metadata: File::metadata(infd) returns the same facts
    h.attrs[("f", None, ctx.field("CopyHandle", "infd"))] = OpaqueV("std::fs::File", "infd", {"meta": meta})
    h.attrs[("f", None, ctx.field("CopyHandle", "outfd"))] = OpaqueV("std::fs::File", "outfd")
    h.attrs[("f", None, ctx.field("CopyHandle", "metadata"))] = meta
    h.attrs[("f", None, ctx.field("CopyHandle", "config"))] = mk_arc(cfg, "Arc<config::Config>", "cfg_arc", rc=2)
    return h


def enum_is(eng, st, v, ty, vname):
    """z3 condition: enum value v (opaque with symbolic discriminant or concrete) is variant vname"""
    idx = eng.variant_index(ty, vname)
    if isinstance(v, AggV):
        return z3.BoolVal(v.variant == idx)
    return eng.discriminant(st, v).t == idx


def file_id(v, eng=None, st=None):
    """which modelled file a &File argument designates: 'infd' / 'outfd' / other name"""
    if isinstance(v, RefV):
        v = eng.read(st, v.cell, v.path, None)
    return getattr(v, "name", "?")


def is_errev(e):
    return isinstance(e.ret, str) and e.ret == "err"



def build_args(eng, st, fn, known):
    """arguments for fn in declaration order: `known` is a list of (type regex, value) pairs consumed in order;
    parameters that match none get a fresh symbolic value of their declared type (so that a changed signature
    keeps the lemma group running instead of reading an uninitialised local)"""
    pool = list(known)
    args = []
    for _l, ty in fn.args:
        hit = None
        for i, (rx, v) in enumerate(pool):
            if re.search(rx, ty):
                hit = i
                break
        if hit is not None:
            args.append(pool.pop(hit)[1])
            continue
        m = re.match(r"^&(?:'\\w+ )?(?:mut )?(Vec<.*>)$", ty)
        if m:
            args.append(RefV(Cell(OpaqueV("Vec", "extra_arg_vec", {"items": []}))))
        elif re.match(r"^Vec<.*>$", ty):
            args.append(OpaqueV("Vec", "extra_arg_vec", {"items": []}))
        else:
            args.append(eng.fresh(st, ty, "extra_arg"))
    return args
