"""src/main.rs: validation before the copy starts, and how the copy's outcome becomes the exit status
(C16, C03 textual check, C04/C07 tail of main, C01 Config::from)."""
import re

import z3

from props.common import *
from props.env import install_env, path_id
from props.p_walker import P, pexpr

OPTS_BOOL = ["recursive", "dereference", "no_clobber", "force", "gitignore", "glob", "no_progress", "no_perms",
             "no_timestamps", "ownership", "no_target_directory", "fsync"]


def mk_opts(ctx, eng, st, npaths, with_td):
    o = OpaqueV("options::Opts", "opts")
    vals = {}
    fields = ctx.structs()["Opts"]
    for n in OPTS_BOOL:
        v = BoolV(z3.Bool("opt_" + n))
        o.attrs[("f", None, fields.index(n))] = v
        vals[n] = v
    for n, ty in (("verbose", "u8"), ("workers", "usize"), ("block_size", "u64")):
        v = eng.fresh_int(st, ty, "opt_" + n)
        o.attrs[("f", None, fields.index(n))] = v
        vals[n] = v
    for n, ty in (("driver", "Drivers"), ("reflink", "Reflink"), ("backup", "Backup")):
        v = OpaqueV(ty, "opt_" + n)
        eng.discriminant(st, v)
        o.attrs[("f", None, fields.index(n))] = v
        vals[n] = v
    names = ["arg%d" % i for i in range(npaths)]
    o.attrs[("f", None, fields.index("paths"))] = OpaqueV("Vec<String>", "paths", {"items": [StrV(n) for n in names]})
    td = AggV("Option", 1, [StrV("tdir")], "Some") if with_td else AggV("Option", 0, [], "None")
    o.attrs[("f", None, fields.index("target_directory"))] = td
    return o, vals, names


def install_main_env(ctx, eng, opts_holder):
    install_env(ctx, eng)
    S = eng.add_summary
    front = lambda rx, h: eng.add_summary(rx, h, front=True)
    S(r"^(std::)?(fmt::)?format$|^must_use::<", lambda e, st, c, a, d: Outcome(a[0] if c.startswith("must_use") else OpaqueV("String", None)))
    front(r"^<str as ToString>::to_string$", lambda e, st, c, a, d: Outcome(OpaqueV("String", None)))
    S(r"^Opts::from_args$", lambda e, st, c, a, d: [Outcome(ok(opts_holder[0]), events=[Event("from_args", [], "ok")]),
                                                      Outcome(err("anyhow::Error"), events=[Event("from_args", [], "err")])])
    S(r"^init_logging$", lambda e, st, c, a, d: [Outcome(ok(), events=[Event("init_logging", [], "ok")]),
                                                   Outcome(err("anyhow::Error"), events=[Event("init_logging", [], "err")])])
    eng.inline += [r"^opts_check$"]
    S(r"^<Reflink as PartialEq>::eq$", lambda e, st, c, a, d: Outcome(BoolV(e.discriminant(st, deref_ref(e, st, a[0])).t == e.discriminant(st, deref_ref(e, st, a[1])).t)))
    # Vec<String> / slices with concrete length
    front(r"^<Vec<(std::string::)?String> as Deref>::deref$|^Vec::<(std::string::)?String>::as_slice$",
          lambda e, st, c, a, d: Outcome(RefV(Cell(OpaqueV("slice", None, {"items": list(deref_ref(e, st, a[0]).attrs["items"])})))))

    def s_split_last(eng, st, callee, args, dty):
        sl = deref_ref(eng, st, args[0])
        it = sl.attrs["items"]
        if not it:
            return Outcome(AggV("Option", 0, [], "None"))
        rest = RefV(Cell(OpaqueV("slice", None, {"items": it[:-1]})))
        return Outcome(AggV("Option", 1, [AggV("tuple", None, [RefV(Cell(it[-1])), rest])], "Some"))
    S(r"^core::slice::<impl \[(std::string::)?String\]>::split_last$", s_split_last)

    def s_ok_or(eng, st, callee, args, dty):
        o = args[0]
        if o.vname == "Some":
            return Outcome(ok(o.fields[0]))
        return Outcome(AggV("Result", 1, [args[1]], "Err"))
    S(r"^Option::<.*>::ok_or::<", s_ok_or)
    S(r"^<(std::path::)?PathBuf as From<&(std::string::)?String>>::from$", lambda e, st, c, a, d: Outcome(P(("arg", deref_ref(e, st, a[0]).s))))

    def s_expand(eng, st, callee, args, dty):
        sl = deref_ref(eng, st, args[0])
        o = deref_ref(eng, st, args[1])
        glob = o.attrs[("f", None, ctx.structs()["Opts"].index("glob"))].t
        lit = [P(("arg", s.s)) for s in sl.attrs["items"]]
        outs = [Outcome(ok(OpaqueV("Vec<PathBuf>", None, {"items": lit})), [z3.Not(glob)], events=[Event("expand", ["literal", len(lit)], "ok")])]
        for m in range(0, 3):
            outs.append(Outcome(ok(OpaqueV("Vec<PathBuf>", None, {"items": [P(("glob", i)) for i in range(m)]})), [glob],
                                events=[Event("expand", ["glob", m], "ok")]))
        outs.append(Outcome(err("anyhow::Error"), [glob], events=[Event("expand", ["glob"], "err")]))
        return outs
    S(r"^expand_sources$", s_expand)
    vec = lambda e, st, v: deref_ref(e, st, v).attrs["items"]
    S(r"^Vec::<PathBuf>::is_empty$", lambda e, st, c, a, d: Outcome(BoolV(len(vec(e, st, a[0])) == 0)))
    S(r"^Vec::<PathBuf>::len$", lambda e, st, c, a, d: Outcome(IntV(len(vec(e, st, a[0])), "usize")))

    def s_index(eng, st, callee, args, dty):
        items = vec(eng, st, args[0])
        i = eng.concrete_int(st, args[1])
        if i is None or i >= len(items):
            return Outcome(diverge="index out of bounds")
        return Outcome(RefV(Cell(items[i])))
    S(r"^<Vec<PathBuf> as Index<usize>>::index$", s_index)
    S(r"^<&Vec<PathBuf> as IntoIterator>::into_iter$", lambda e, st, c, a, d: Outcome(OpaqueV("slice::Iter", None, {"items": list(vec(e, st, a[0])), "pos": Cell(0)})))

    def s_iter_next(eng, st, callee, args, dty):
        it = deref_ref(eng, st, args[0])
        i = it.attrs["pos"].v
        if i < len(it.attrs["items"]):
            it.attrs["pos"].v = i + 1
            return Outcome(AggV("Option", 1, [RefV(Cell(it.attrs["items"][i]))], "Some"), events=[Event("check-source", [i], None)])
        return Outcome(AggV("Option", 0, [], "None"))
    S(r"^<std::slice::Iter<'_, PathBuf> as Iterator>::next$", s_iter_next)

    # path algebra as in the walker; textual equality of two argument strings is a symbolic fact
    S(r"^(std::path::)?Path::components$", lambda e, st, c, a, d: Outcome(OpaqueV("Components", None, {"of": pexpr(e, st, a[0])})))

    def s_next_back(eng, st, callee, args, dty):
        comp = deref_ref(eng, st, args[0])
        of = comp.attrs["of"]
        has = z3.Bool("has_component_%s" % re.sub(r"\W+", "_", repr(of)))
        return [Outcome(AggV("Option", 1, [OpaqueV("Component", None, {"expr": ("last", of)})], "Some"), [has]),
                Outcome(AggV("Option", 0, [], "None"), [z3.Not(has)])]
    S(r"^<Components<'_> as DoubleEndedIterator>::next_back$", s_next_back)

    def s_join(eng, st, callee, args, dty):
        a = pexpr(eng, st, args[0])
        b = args[1]
        be = b.attrs["expr"] if isinstance(b, OpaqueV) and "expr" in b.attrs else pexpr(eng, st, b)
        return Outcome(P(("join", a, be)))
    S(r"^(std::path::)?Path::join::<", s_join)
    S(r"^(std::path::)?Path::to_path_buf$", lambda e, st, c, a, d: Outcome(P(pexpr(e, st, a[0]))))

    def s_eq(eng, st, callee, args, dty):
        a = pexpr(eng, st, deref_ref(eng, st, args[0]))
        b = pexpr(eng, st, deref_ref(eng, st, args[1]))
        v = text_eq(a, b)
        return Outcome(BoolV(v), events=[Event("path-eq", [a, b], BoolV(v))])
    S(r"^<&(std::path::)?PathBuf as PartialEq>::eq$", s_eq)

    def s_probe(name):
        def h(eng, st, callee, args, dty):
            p = pexpr(eng, st, args[0])
            tied = st.ghost.setdefault("tied", set())
            if repr(p) not in tied:
                tied.add(repr(p))
                st.pc.append(z3.Implies(fs_atom("is_dir", p), fs_atom("exists", p)))
            outs = [Outcome(BoolV(fs_atom(name, p)), events=[Event("Path::" + name, [p], None)])]
            # exists() answers `false` when the stat itself fails: explored once per path for the destination-side probes of the
            # one-source shape (the identity checks that protect the source hang on them)
            de = st.ghost.get("dest_expr")
            on_dest = de is not None and (p == de or (p[0] == "join" and p[1] == de))
            if name == "exists" and st.ghost.get("swallow_ok") and not st.ghost.get("stat_swallowed") and on_dest:
                def eff(eng, s2, a2):
                    s2.ghost["stat_swallowed"] = True
                outs.append(Outcome(BoolV(False), events=[Event("Path::" + name, [p], "stat-failed")], effect=eff))
            return outs
        return h

    def s_try_exists_main(eng, st, callee, args, dty):
        p = pexpr(eng, st, args[0])
        return [Outcome(ok(BoolV(fs_atom("exists", p))), events=[Event("Path::try_exists", [p], None)]),
                Outcome(err("std::io::Error"), events=[Event("Path::try_exists", [p], "err")])]
    front(r"^(std::path::)?Path::try_exists$", s_try_exists_main)
    # identity of two paths (libfs::is_same_file): a fact per pair, like text equality
    def s_same(eng, st, callee, args, dty):
        a, b = pexpr(eng, st, args[0]), pexpr(eng, st, args[1])
        v = alias_atom(a, b)
        # (the failing stat inside is_same_file is `?`-propagated: one more early return, not explored per pair to keep the
        # product over sources small)
        return Outcome(ok(BoolV(v)), events=[Event("identity-check", [a, b], BoolV(v))])
    S(r"^(libfs::)?is_same_file$", s_same)
    def s_lstat_main(eng, st, callee, args, dty):
        p = pexpr(eng, st, args[0])
        st.pc.append(z3.Implies(fs_atom("exists", p), fs_atom("lexists", p)))
        m = OpaqueV("std::fs::Metadata", "lstat:" + repr(p), {})
        return [Outcome(ok(m), [fs_atom("lexists", p)], events=[Event("Path::symlink_metadata", [p], "ok")]),
                Outcome(err("std::io::Error"), [z3.Not(fs_atom("lexists", p))], events=[Event("Path::symlink_metadata", [p], "absent")])]
    front(r"^(std::path::)?Path::symlink_metadata$", s_lstat_main)
    front(r"^(std::path::)?Path::exists$", s_probe("exists"))
    front(r"^(std::path::)?Path::is_dir$", s_probe("is_dir"))

    # the copy itself
    S(r"^<libxcp::config::Config as From<&Opts>>::from$", lambda e, st, c, a, d: Outcome(OpaqueV("Config", "config"), events=[Event("config", [], None)]))
    S(r"^Arc::<.*>::new$", lambda e, st, c, a, d: Outcome(OpaqueV(d if d != "?" else "Arc<?>", None, {"inner": Cell(a[0]), "rc": Cell(1)})), front=True)
    S(r"^load_driver$", lambda e, st, c, a, d: [Outcome(ok(OpaqueV("Box<dyn CopyDriver>", "driver")), events=[Event("load_driver", [a[0]], "ok")]),
                                                 Outcome(err("anyhow::Error"), events=[Event("load_driver", [a[0]], "err")])])
    S(r"^ChannelUpdater::new$", lambda e, st, c, a, d: Outcome(OpaqueV("ChannelUpdater", "updater")))
    S(r"^ChannelUpdater::rx_channel$", lambda e, st, c, a, d: Outcome(OpaqueV("Receiver<StatusUpdate>", "stat_rx")))
    S(r"^(std::thread::)?spawn::<", lambda e, st, c, a, d: Outcome(OpaqueV("JoinHandle", "copy_thread", {"closure": a[0]}), events=[Event("spawn", [a[0]], None)]))
    S(r"^create_bar$", lambda e, st, c, a, d: [Outcome(ok(OpaqueV("Box<dyn ProgressBar>", "pb")), events=[Event("create_bar", [], "ok")]),
                                                Outcome(err("anyhow::Error"), events=[Event("create_bar", [], "err")])])
    S(r"^<crossbeam_channel::(channel::)?Receiver<StatusUpdate> as IntoIterator>::into_iter$", lambda e, st, c, a, d: Outcome(OpaqueV("IntoIter<StatusUpdate>", "updates")))

    def s_upd_next(eng, st, callee, args, dty):
        n = st.ghost.get("upd", 0)
        st.ghost["upd"] = n + 1
        none = Outcome(AggV("Option", 0, [], "None"), events=[Event("update", ["closed"], None)])
        if n > 0:
            return none
        outs = []
        for k in ("Copied", "Size", "Error"):
            pay = eng.fresh_int(st, "u64", "upd") if k != "Error" else OpaqueV("XcpError", "worker_error")
            u = AggV("StatusUpdate", eng.variant_index("StatusUpdate", k), [pay], k)
            outs.append(Outcome(AggV("Option", 1, [u], "Some"), events=[Event("update", [k], None)]))
        outs.append(none)
        return outs
    S(r"^<crossbeam_channel::(channel::)?IntoIter<StatusUpdate> as Iterator>::next$", s_upd_next)
    for m in ("inc", "inc_size", "end"):
        S(r"^<dyn progress::ProgressBar as progress::ProgressBar>::%s$" % m, (lambda m: lambda e, st, c, a, d: Outcome(UnitV(), events=[Event("pb." + m, a[1:], None)]))(m))

    def s_join_handle(eng, st, callee, args, dty):
        okok = AggV("Result", 0, [ok()], "Ok")
        okerr = AggV("Result", 0, [err("anyhow::Error")], "Ok")
        pan = AggV("Result", 1, [OpaqueV("Box<dyn Any>")], "Err")
        return [Outcome(okok, events=[Event("join", [], "ok")]), Outcome(okerr, events=[Event("join", [], "copy-err")]),
                Outcome(pan, events=[Event("join", [], "panicked")])]
    S(r"^JoinHandle::<.*>::join$", s_join_handle)

    def s_map_err(eng, st, callee, args, dty):
        r = args[0]
        if r.vname == "Ok":
            return Outcome(r)
        return Outcome(AggV("Result", 1, [OpaqueV("XcpError", "join_error")], "Err"))
    S(r"^Result::<.*>::map_err::<", s_map_err)


def fs_atom(name, p):
    """the file-system fact `name`(p) as a solver variable (same variable wherever it is asked)"""
    return z3.Bool("%s_%s" % (name, re.sub(r"\W+", "_", repr(p))))


def alias_atom(a, b):
    """a and b designate the same inode (another spelling, a link)"""
    if a == b:
        return z3.BoolVal(True)
    x, y = sorted([repr(a), repr(b)])
    return z3.Bool("same_inode_%s__%s" % (re.sub(r"\W+", "_", x), re.sub(r"\W+", "_", y)))


def text_eq(a, b):
    if a == b:
        return z3.BoolVal(True)
    x, y = sorted([repr(a), repr(b)])
    return z3.Bool("same_text_%s__%s" % (re.sub(r"\W+", "_", x), re.sub(r"\W+", "_", y)))


def _reference_invalid(p, names, with_td, vals, sources, dest_expr, fsm, texteq):
    """independent statement of the rejection classes over the same atoms (the atoms exist whether or not
    the code asked about them: a check the code forgot leaves its atom unconstrained)"""
    B = fs_atom
    inv = []
    inv.append(z3.And(vals["no_clobber"].t, vals["force"].t))
    # a block size of 0 cannot be copied with (division by zero in the updater and the block partition): reject, don't panic midway
    inv.append(z3.And(vals["block_size"].t == 0, z3.Not(vals["no_progress"].t)))
    if sources is None:
        return inv
    if len(sources) == 0:
        inv.append(z3.BoolVal(True))
    dest_dir = B("is_dir", dest_expr)
    if len(sources) > 1:
        inv.append(z3.Not(dest_dir))
    if len(sources) == 1:
        inv.append(z3.And(z3.Not(dest_dir), B("is_dir", sources[0]), B("exists", dest_expr)))
    into = z3.And(B("exists", dest_expr), dest_dir, z3.Not(vals["no_target_directory"].t))
    for s in sources:
        inv.append(z3.Not(B("exists", s)))
        inv.append(z3.And(B("is_dir", s), z3.Not(vals["recursive"].t)))
        inv.append(text_eq(s, dest_expr))
        # ... and not only textually: the destination (or the path the source maps to) may be the source itself under another
        # spelling or through a link -- `xcp -r d ./d` would copy d into itself, `xcp ../in/g f .` fail after writing g
        inv.append(z3.And(B("exists", dest_expr), alias_atom(s, dest_expr)))
        for base, cond in ((("join", dest_expr, ("last", s)), into), (dest_expr, z3.Not(into))):
            inv.append(z3.And(cond, text_eq(s, base)))
            inv.append(z3.And(cond, B("exists", base), alias_atom(s, base)))
            # a directory source cannot replace a non-directory at the path it maps to -- for each of several sources too
            # ("exists": the entry itself, lstat -- a dangling link at that path is a non-directory in the way, too)
            inv.append(z3.And(cond, B("is_dir", s), B("lexists", base), z3.Not(B("is_dir", base))))
    return inv


def _fs_axioms(sources, dest_expr):
    ax = []
    for e_ in [dest_expr] + [("join", dest_expr, ("last", s_)) for s_ in list(sources or [])] if dest_expr else []:
        ax.append(z3.Implies(fs_atom("exists", e_), fs_atom("lexists", e_)))
    for s_ in list(sources or []):
        if dest_expr:
            for x in (dest_expr, ("join", dest_expr, ("last", s_))):
                ax.append(z3.Implies(text_eq(s_, x), alias_atom(s_, x)))
    for e in list(sources or []) + ([dest_expr] if dest_expr else []):
        ax.append(z3.Implies(fs_atom("is_dir", e), fs_atom("exists", e)))
    return ax


def lemma_main(ctx):
    total = 0
    started = 0
    rejected = 0
    shapes = [(0, False), (1, False), (2, False), (3, False), (0, True), (1, True), (2, True)]
    if ctx.tier == "quick":
        shapes = [(0, False), (1, False), (2, False), (3, False), (1, True)]
    for npaths, with_td in shapes:
        eng = ctx.engine("xcp", loop_bound=5, timeout_s=900)
        eng.max_paths = 100000
        holder = [None]
        install_main_env(ctx, eng, holder)
        st = State()
        opts, vals, names = mk_opts(ctx, eng, st, npaths, with_td)
        holder[0] = opts
        if npaths == 2 and not with_td:
            st.ghost["swallow_ok"] = True
            st.ghost["dest_expr"] = ("arg", names[-1])
        fn = fn_named(eng.funcs, "main")
        paths = eng.run(fn.name, [], st)
        total += len(paths)
        for p in paths:
            tn = trace_names(p)
            if p.status == "panic":
                ctx.fail("C16: main does not panic on any argument shape", "%s (%d paths args, -t %s)" % (p.msg, npaths, with_td))
                continue
            if p.status != "return":
                ctx.fail("main: path ends in return", "%s %s %s" % (p.status, p.msg, tn[-5:]))
                continue
            ev = p.trace
            spawn = [e for e in ev if e.name == "spawn"]
            ld = [e for e in ev if e.name == "load_driver"]
            exp = [e for e in ev if e.name == "expand" and e.ret == "ok"]
            fsm = p.ghost.get("fs", {})
            texteq = p.ghost.get("texteq", {})
            if with_td:
                dest_expr, srcnames = ("arg", "tdir"), names
            else:
                dest_expr, srcnames = (("arg", names[-1]) if names else None), names[:-1]
            sources = None
            if exp:
                sources = [("arg", s) for s in srcnames] if exp[0].args[0] == "literal" else [("glob", i) for i in range(exp[0].args[1])]
            early = [e for e in ev if is_errev(e) and e.name in ("from_args", "init_logging", "expand")]
            # nothing with a side effect on the file system may precede the start of the copy: every callee of main has a
            # summary and none of them mutates; what must be shown is that the driver is started only for valid invocations
            if p.ghost.get("stat_swallowed"):
                # one stat of the destination failed and exists() said "no": the same-file checks must not be skipped on that
                if spawn:
                    ctx.fail("C03/C16: a failed stat of the destination is not taken for 'absent' by main's same-file checks (the copy must not start on it)",
                             str(tn[:14]), key="stat-error-taken-for-absent")
                else:
                    ctx.passed("C03/C16: a failed stat of the destination is not taken for 'absent' by main's same-file checks (the copy must not start on it)")
                continue
            if spawn:
                started += 1
                inv = _reference_invalid(p, names, with_td, vals, sources, dest_expr, fsm, texteq)
                ax = _fs_axioms(sources, dest_expr)
                # one query for all rejection classes; only a failing path is taken apart class by class
                okall, _m = eng.valid(p.pc + ax, z3.Not(z3.Or(*inv)))
                for i, c in (enumerate(inv) if not okall else [(-1, z3.Or(*inv))]):
                    ctx.lemma(eng, "C16: the copy is never started for an invocation that must be rejected", p.pc + ax, z3.Not(c),
                              info={"class": i, "args": npaths, "target_directory": with_td, "trace": tn[:12]})
                if not ld or ev.index(ld[0]) > ev.index(spawn[0]):
                    ctx.fail("C16: the driver is loaded before the copy thread starts", str(tn))
                cl = spawn[0].args[0]
                # ---- tail of main: how the outcome becomes the exit status (C04, C07, C12)
                ups = [e.args[0] for e in ev if e.name == "update"]
                jn = [e for e in ev if e.name == "join"]
                if "Error" in ups:
                    (ctx.passed if is_err(p.ret) else ctx.fail)("C04: the first Error update becomes a non-zero exit", str(tn[-6:]))
                    continue
                if any(is_errev(e) for e in ev if e.name == "create_bar"):
                    continue
                if not jn:
                    ctx.fail("C07: main waits for the copy thread once the update stream ends", str(tn[-6:]))
                    continue
                if jn[0].ret == "ok":
                    (ctx.passed if is_ok(p.ret) else ctx.fail)("C16: a valid invocation whose copy succeeds exits 0", str(tn[-6:]))
                else:
                    (ctx.passed if is_err(p.ret) else ctx.fail)("C04: a failed or panicked copy thread becomes a non-zero exit", str(tn[-6:]))
                for k, m in (("Copied", "pb.inc"), ("Size", "pb.inc_size")):
                    if k in ups and m not in [e.name for e in ev]:
                        ctx.fail("C12: %s updates drive the progress display" % k, str(tn[-6:]))
            else:
                rejected += 1
                if not is_err(p.ret):
                    ctx.fail("C16: main returns Ok only after running the copy", str(tn))
                if ld and not any(is_errev(e) for e in ld):
                    ctx.fail("C16: a rejected invocation never gets as far as loading a driver", str(tn))
                if [e for e in ev if e.name in ("create_bar", "update", "join")]:
                    ctx.fail("C16: a rejected invocation never reaches the progress/update loop", str(tn))
    ctx.paths += total
    (ctx.passed if started else ctx.fail)("witness: some invocation starts the copy", "")
    (ctx.passed if rejected else ctx.fail)("witness: some invocation is rejected", "")
    ctx.bounds = "0..3 positional arguments, with/without --target-directory, literal or globbed (0..2 results) sources; all flag values; every file-system probe symbolic; %d paths" % total


def lemma_config_from_opts(ctx):
    """<Config as From<&Opts>>::from: --no-progress selects block_size = usize::MAX, otherwise the given size (C01)."""
    eng = ctx.engine("xcp", loop_bound=2)
    install_env(ctx, eng)
    eng.add_summary(r"^num_cpus::get$|^get$", lambda e, st, c, a, d: Outcome(e.fresh_int(st, "usize", "ncpu")))
    fn = fn_named(eng.funcs, "<Config as From>::from") if "<Config as From>::from" in eng.funcs else None
    if fn is None:
        cands = [n for n in eng.funcs if n.endswith("::from") and "options" in n]
        if len(cands) != 1:
            raise EngineAbort("Config::from(&Opts) not found: %r" % cands)
        fn = eng.funcs[cands[0]]
    st = State()
    opts, vals, names = mk_opts(ctx, eng, st, 0, False)
    paths = eng.run(fn.name, [RefV(Cell(opts))], st)
    ctx.paths += len(paths)
    cf = ctx.structs()["Config"]
    for p in paths:
        if p.status != "return" or not isinstance(p.ret, AggV):
            ctx.fail("Config::from: returns a Config", "%s %s" % (p.status, p.msg))
            continue
        bs = p.ret.fields[cf.index("block_size")]
        ctx.lemma(eng, "C01: block_size is usize::MAX iff --no-progress, else the requested block size", p.pc,
                  bs.t == z3.If(vals["no_progress"].t, z3.IntVal((1 << 64) - 1), vals["block_size"].t))
        # every option-driven property depends on its option reaching the library configuration
        owner = {"gitignore": "C17", "no_clobber": "C08", "no_perms": "C10", "no_timestamps": "C10", "ownership": "C10", "dereference": "C13",
                 "no_target_directory": "C02", "fsync": "C18", "reflink": "C15", "backup": "C09"}
        for n in ("gitignore", "no_clobber", "no_perms", "no_timestamps", "ownership", "dereference", "no_target_directory", "fsync"):
            v = p.ret.fields[cf.index(n)]
            ctx.lemma(eng, "C16/%s: option --%s reaches the copy configuration unchanged" % (owner[n], n.replace("_", "-")), p.pc, v.t == vals[n].t)
        for n in ("reflink", "backup"):
            v = p.ret.fields[cf.index(n)]
            ctx.lemma(eng, "C16/%s: option --%s reaches the copy configuration unchanged" % (owner[n], n), p.pc,
                      eng.discriminant(p, v).t == eng.discriminant(p, vals[n]).t)
        w = p.ret.fields[cf.index("workers")]
        ctx.lemma(eng, "C16/C20/C06: the worker count is the requested one (CPU count for 0)", p.pc, z3.Or(w.t == vals["workers"].t, vals["workers"].t == 0))
    ctx.bounds = "loop-free; all option values"
