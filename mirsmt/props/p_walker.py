"""tree_walker, per-entry: the root of one source plus one arbitrary descendant
(C02, C08, C13, C14, C17, C12, C04, C07)."""
import re

import z3

from props.common import *
from props.env import install_env, path_id, fs_fact

KINDS = ["File", "Dir", "Symlink", "Socket", "Fifo", "Char", "Block", "Other"]


def P(expr, ty="PathBuf"):
    """abstract path value: structural expression over the atoms src / dest / rel"""
    return OpaqueV(ty, "path:" + repr(expr), {"expr": expr})


def pexpr(eng, st, v):
    v = path_id(eng, st, v)
    if isinstance(v, OpaqueV) and "expr" in v.attrs:
        return v.attrs["expr"]
    if isinstance(v, StrV):
        return ("str", v.s)
    raise EngineAbort("not an abstract path: %r" % (v,))


def install_walker_env(ctx, eng, nsources=1):
    env = install_env(ctx, eng)
    S = eng.add_summary
    front = lambda rx, h: eng.add_summary(rx, h, front=True)
    S(r"^(std::)?(fmt::)?format$|^must_use::<", lambda e, st, c, a, d: Outcome(a[0] if c.startswith("must_use") else OpaqueV("String", None)))
    # ---- Vec<PathBuf> sources
    S(r"^<Vec<PathBuf> as IntoIterator>::into_iter$", lambda e, st, c, a, d: Outcome(OpaqueV("IntoIter", None, {"items": list(a[0].attrs["items"]), "pos": Cell(0)})))

    def s_vnext(eng, st, callee, args, dty):
        it = deref_ref(eng, st, args[0])
        i = it.attrs["pos"].v
        if i < len(it.attrs["items"]):
            it.attrs["pos"].v = i + 1
            st.ghost["cur_source"] = i
            st.ghost["walk_calls"] = 0
            st.ghost["root_expr"] = it.attrs["items"][i].attrs["expr"]
            st.ghost["root_kind"] = None
            return Outcome(AggV("Option", 1, [it.attrs["items"][i]], "Some"), events=[Event("source", [i], None)])
        return Outcome(AggV("Option", 0, [], "None"))
    S(r"^<std::vec::IntoIter<PathBuf> as Iterator>::next$", s_vnext)
    # ---- path algebra (structural)
    S(r"^(std::path::)?Path::components$", lambda e, st, c, a, d: Outcome(OpaqueV("Components", None, {"of": pexpr(e, st, a[0])})))

    def s_next_back(eng, st, callee, args, dty):
        comp = deref_ref(eng, st, args[0])
        of = comp.attrs["of"]
        # how the source is spelled decides its last component: a name (`a/b`, `a/b/`, `a/b/.`), `..` (`a/..`), `/`, `.` (only "."),
        # or nothing at all (the empty path)
        kind = last_kind(of)
        names = ["Prefix", "RootDir", "CurDir", "ParentDir", "Normal"]
        outs = [Outcome(AggV("Option", 1, [AggV("Component", 4, [OpaqueV("OsStr", None, {"expr": ("last", of)})], "Normal")], "Some"), [kind == 4])]
        # two-source mode is about per-source state being recomputed, not about spellings: the first source ends in a name,
        # the second in a name or `..` (the single-source lemma explores every spelling)
        nsrc = st.ghost.get("nsources", 1)
        others = (1, 2, 3) if nsrc == 1 else (() if st.ghost.get("cur_source", 0) == 0 else (3,))
        if nsrc > 1:
            st.pc.append(z3.Or(kind == 4, kind == 3) if others else kind == 4)
        for k in others:
            outs.append(Outcome(AggV("Option", 1, [AggV("Component", k, [], names[k])], "Some"), [kind == k], events=[Event("source-ends-in", [names[k]], None)]))
        if nsrc == 1:
            outs.append(Outcome(AggV("Option", 0, [], "None"), [kind == 0], events=[Event("source-without-components", [], None)]))
        return outs
    S(r"^<Components<'_> as DoubleEndedIterator>::next_back$", s_next_back)

    def s_ok_or(eng, st, callee, args, dty):
        o = args[0]
        if o.vname == "Some":
            return Outcome(ok(o.fields[0]))
        return Outcome(AggV("Result", 1, [args[1]], "Err"))
    S(r"^Option::<.*>::ok_or::<", s_ok_or)

    def s_join(eng, st, callee, args, dty):
        a = pexpr(eng, st, args[0])
        b = args[1]
        if isinstance(b, AggV) and b.ty == "Component":
            be = b.fields[0].attrs["expr"] if b.vname == "Normal" else ("special", b.vname)
        else:
            be = b.attrs["expr"] if isinstance(b, OpaqueV) and "expr" in b.attrs else pexpr(eng, st, b)
        return Outcome(P(("join", a, be)))
    S(r"^(std::path::)?Path::join::<", s_join)
    S(r"^(std::path::)?Path::to_path_buf$", lambda e, st, c, a, d: Outcome(P(pexpr(e, st, a[0]))))
    front(r"^<(std::path::)?PathBuf as Clone>::clone$", lambda e, st, c, a, d: Outcome(P(pexpr(e, st, a[0]))))
    S(r"^(std::path::)?PathBuf::new$", lambda e, st, c, a, d: Outcome(P(("empty",))))
    S(r"^(std::path::)?Path::as_os_str$", lambda e, st, c, a, d: Outcome(a[0]))
    S(r"^(std::ffi::)?OsStr::is_empty$", lambda e, st, c, a, d: Outcome(BoolV(pexpr(e, st, a[0]) == ("empty",))))

    def s_strip(eng, st, callee, args, dty):
        a, b = pexpr(eng, st, args[0]), pexpr(eng, st, args[1])
        if a == b:
            r = ("empty",)
        elif a[0] == "join" and a[1] == b:
            r = a[2]
        else:
            return Outcome(AggV("Result", 1, [OpaqueV("StripPrefixError")], "Err"), events=[Event("strip_prefix", [a, b], "err")])
        return Outcome(ok(RefV(Cell(P(r, "Path")))))
    S(r"^(std::path::)?Path::strip_prefix::<", s_strip)

    def s_path_eq(eng, st, callee, args, dty):
        a, b = pexpr(eng, st, args[0]), pexpr(eng, st, args[1])
        if ("rel",) in (a, b) and ("empty",) in (a, b):
            return Outcome(BoolV(False))     # the descendant's relative path is non-empty by construction
        return Outcome(BoolV(a == b))
    S(r"^<(std::path::)?Path as PartialEq<(std::path::)?PathBuf>>::eq$", s_path_eq)
    eng.inline += [r"^empty_path$", r"^parse_ignore$", r"^ignore_filter$", r"^tree_walker::\{closure#0\}$"]

    # ---- gitignore wiring (C17): the matcher is an uninterpreted predicate of (path, is_dir)
    S(r"^GitignoreBuilder::new::<", lambda e, st, c, a, d: Outcome(OpaqueV("GitignoreBuilder", None, {"root": pexpr(e, st, a[0]), "files": []}),
                                                                    events=[Event("gi.new", [pexpr(e, st, a[0])], None)]))

    def s_gi_add(eng, st, callee, args, dty):
        b = deref_ref(eng, st, args[0])
        f = pexpr(eng, st, args[1])
        b.attrs["files"] = list(b.attrs["files"]) + [f]
        # add() reads the file: it returns the (partial) error when the file cannot be read or a line cannot be parsed
        outs = [Outcome(AggV("Option", 0, [], "None"), events=[Event("gi.add", [f], None)])]
        if st.ghost.get("nsources", 1) == 1:      # the failing read is explored in the single-source lemma
            outs.append(Outcome(AggV("Option", 1, [OpaqueV("ignore::Error")], "Some"), events=[Event("gi.add", [f], "err")]))
        return outs
    S(r"^GitignoreBuilder::add::<", s_gi_add)

    def s_gi_build(eng, st, callee, args, dty):
        b = deref_ref(eng, st, args[0])
        g = OpaqueV("Gitignore", None, {"root": b.attrs["root"], "files": list(b.attrs["files"])})
        return [Outcome(ok(g), events=[Event("gi.build", [b.attrs["root"], tuple(b.attrs["files"])], "ok")]),
                Outcome(AggV("Result", 1, [OpaqueV("ignore::Error")], "Err"), events=[Event("gi.build", [], "err")])]
    S(r"^GitignoreBuilder::build$", s_gi_build)

    def s_matched(eng, st, callee, args, dty):
        g = deref_ref(eng, st, args[0])
        p = pexpr(eng, st, args[1])
        isd = args[2]
        # Match::None / Match::Ignore(glob) / Match::Whitelist(glob): the matcher's verdict is an uninterpreted value
        kind = z3.Int("git_match_%s_%d" % (re.sub(r"\W+", "_", repr(p))[:30], next(eng.fresh_ids)))
        st.pc.append(z3.And(kind >= 0, kind <= 2))
        return Outcome(OpaqueV("Match", None, {"kind": kind}), events=[Event("gi.matched", [p, isd, g.attrs["root"]], BoolV(kind == 1))])
    S(r"^Gitignore::matched::<", s_matched)
    S(r"^Gitignore::matched_path_or_any_parents::<", lambda e, st, c, a, d: Outcome(diverge="model: matched_path_or_any_parents is not the per-entry question"))
    mk = lambda want: (lambda e, st, c, a, d: Outcome(BoolV(deref_ref(e, st, a[0]).attrs["kind"] == want)))
    S(r"^ignore::Match::<.*>::is_ignore$", mk(1))
    S(r"^ignore::Match::<.*>::is_none$", mk(0))
    S(r"^ignore::Match::<.*>::is_whitelist$", mk(2))

    S(r"^Gitignore::path$", lambda e, st, c, a, d: Outcome(RefV(Cell(P(deref_ref(e, st, a[0]).attrs["root"], "Path")))))

    # ---- walkdir::Error accessors: nothing is known about a walk error beyond what the accessors say (all symbolic)
    S(r"^walkdir::Error::depth$", lambda e, st, c, a, d: Outcome(e.fresh_int(st, "usize", "werr_depth")))

    def s_werr_io(eng, st, callee, args, dty):
        w = deref_ref(eng, st, args[0])
        io = w.attrs.setdefault("io", OpaqueV("std::io::Error", "werr_io_%d" % next(eng.fresh_ids)))
        has = z3.Bool("werr_has_io_%s" % io.name)
        v = io if "into" in callee else RefV(Cell(io))
        return [Outcome(AggV("Option", 1, [v], "Some"), [has]), Outcome(AggV("Option", 0, [], "None"), [z3.Not(has)])]
    S(r"^walkdir::Error::(io_error|into_io_error)$", s_werr_io)
    S(r"^walkdir::Error::(path|loop_ancestor)$", lambda e, st, c, a, d: [
        Outcome(AggV("Option", 1, [RefV(Cell(P(("werr_path",), "Path")))], "Some"), [z3.Bool("werr_has_%s" % c.split("::")[-1])]),
        Outcome(AggV("Option", 0, [], "None"), [z3.Not(z3.Bool("werr_has_%s" % c.split("::")[-1]))])])

    # ---- WalkDir (per-entry abstraction)
    def s_wd_new(eng, st, callee, args, dty):
        return Outcome(OpaqueV("WalkDir", None, {"root": pexpr(eng, st, args[0]), "follow": BoolV(False)}),
                       events=[Event("WalkDir::new", [pexpr(eng, st, args[0])], None)])
    S(r"^WalkDir::new::<", s_wd_new)

    def s_follow(eng, st, callee, args, dty):
        w = args[0]
        n = OpaqueV("WalkDir", None, dict(w.attrs))
        n.attrs["follow"] = args[1]
        return Outcome(n, events=[Event("WalkDir::follow_links", [args[1]], None)])
    S(r"^WalkDir::follow_links$", s_follow)
    def s_wd_other(eng, st, callee, args, dty):
        w = args[0]
        n = OpaqueV("WalkDir", None, dict(w.attrs))
        meth = callee.split("::")[-1]
        n.attrs[meth] = args[1] if len(args) > 1 else True
        return Outcome(n, events=[Event("WalkDir::" + meth, list(args[1:]), None)])
    S(r"^WalkDir::(follow_root_links|min_depth|max_depth|same_file_system|contents_first|max_open)$", s_wd_other)
    S(r"^<WalkDir as IntoIterator>::into_iter$", lambda e, st, c, a, d: Outcome(OpaqueV("walkdir::IntoIter", None, dict(a[0].attrs))))

    def s_filter_entry(eng, st, callee, args, dty):
        it = OpaqueV("FilterEntry", None, dict(args[0].attrs))
        it.attrs["pred"] = args[1]
        return Outcome(it)
    S(r"^walkdir::IntoIter::filter_entry::<", s_filter_entry)
    S(r"^<FilterEntry<.*> as IntoIterator>::into_iter$", lambda e, st, c, a, d: Outcome(a[0]))

    def s_walk_next(eng, st, callee, args, dty):
        it = deref_ref(eng, st, args[0])
        n = st.ghost.get("walk_calls", 0)
        st.ghost["walk_calls"] = n + 1
        root = it.attrs["root"]
        none = AggV("Option", 0, [], "None")
        first_of_two = st.ghost.get("nsources", 1) > 1 and st.ghost.get("cur_source", 0) == 0
        if n == 0:
            cands = [("root", root)]
        elif n == 1 and st.ghost.get("root_kind") == "Dir" and not first_of_two:
            cands = [("desc", ("join", root, ("rel",))), None]
        elif n == 1 and st.ghost.get("root_kind") == "Symlink" and not first_of_two:
            # walkdir follows a symbolic link given as the *root* unless told otherwise (follow_root_links defaults to true),
            # even when follow_links is off: the link is yielded as an entry and, if it leads to a directory, so is what is beneath
            frl = it.attrs.get("follow_root_links")
            frl_t = frl.t if isinstance(frl, BoolV) else z3.BoolVal(True)
            sat, _ = eng.check(st.pc + [frl_t])
            if sat:
                cands = [("desc", ("join", root, ("rel",)), frl_t), None]
            else:
                return Outcome(none, events=[Event("walk-end", [], None)])
        else:
            return Outcome(none, events=[Event("walk-end", [], None)])
        out = []
        pred_fn = None
        pv = it.attrs.get("pred")
        if pv is not None:
            for name, fn in eng.funcs.items():
                if "{closure#" in name and fn.args and isinstance(pv, AggV) and pv.ty in fn.args[0][1]:
                    pred_fn = fn
        for cnd in cands:
            s2 = st.clone() if cnd is not cands[-1] else st
            if cnd is None:
                s2.trace.append(Event("walk-end", [], None))
                out.append((s2, none, []))
                continue
            which, pe = cnd[:2]
            if len(cnd) > 2:
                s2.pc.append(cnd[2])
                s2.ghost["under_root_link"] = True
            # a failing readdir/stat inside the walk surfaces as Some(Err(..))
            s3 = s2.clone()
            s3.trace.append(Event("walk-entry", [which, pe], "err"))
            out.append((s3, AggV("Option", 1, [AggV("Result", 1, [OpaqueV("walkdir::Error")], "Err")], "Some"), []))
            ent = OpaqueV("walkdir::DirEntry", None, {"expr": pe, "which": which, "follow": it.attrs.get("follow")})
            s2.trace.append(Event("walk-entry", [which, pe], "ok"))
            if pred_fn is None:
                out.append((s2, AggV("Option", 1, [ok(ent)], "Some"), []))
                continue
            it2 = deref_ref(eng, s2, s2.frames[-1].locals[term_arg_local(s2)].v) if False else None
            pcl = RefV(Cell(_find_pred(eng, s2)))
            for s4, r in eng.call_sync(s2, pred_fn, [pcl, RefV(Cell(ent))]):
                if s4.status != "running":
                    out.append((s4, None, []))
                    continue
                keep = r.t
                # predicate false: the entry (and, for a directory, everything beneath it) is skipped
                s5 = s4.clone()
                s5.trace.append(Event("walk-filtered", [which, pe], None))
                if which == "root":
                    s5.ghost["root_kind"] = "filtered"
                out.append((s5, none if which == "desc" or True else none, [z3.Not(keep)]))
                out.append((s4, AggV("Option", 1, [ok(ent)], "Some"), [keep]))
        return ("states", out)
    S(r"^<FilterEntry<.*> as Iterator>::next$", s_walk_next)
    # what the walk itself reports about an entry: the link's target when the walk follows links, else the entry
    def s_de_ftype(eng, st, callee, args, dty):
        ent = deref_ref(eng, st, args[0])
        tie(st, ent.attrs["expr"])
        return Outcome(OpaqueV("std::fs::FileType", None, {"of": ent.attrs["expr"], "walk_follow": ent.attrs.get("follow") or BoolV(False)}))
    S(r"^walkdir::DirEntry::file_type$", s_de_ftype)

    def s_ft_is(q):
        def h(eng, st, callee, args, dty):
            ft = deref_ref(eng, st, args[0])
            of, fol = ft.attrs.get("of"), ft.attrs.get("walk_follow")
            if fol is None:
                return Outcome(BoolV(wfact("lstat_" + q, of)))
            if q == "is_symlink":
                return Outcome(BoolV(z3.And(z3.Not(fol.t), wfact("lstat_is_symlink", of))))
            return Outcome(BoolV(z3.If(fol.t, wfact(q, of), wfact("lstat_" + q, of))))
        return h
    for q in ("is_dir", "is_file", "is_symlink"):
        front(r"^(std::fs::)?FileType::%s$" % q, s_ft_is(q))
    S(r"^walkdir::DirEntry::path_is_symlink$", lambda e, st, c, a, d: Outcome(BoolV(wfact("lstat_is_symlink", deref_ref(e, st, a[0]).attrs["expr"]))))
    S(r"^walkdir::DirEntry::depth$", lambda e, st, c, a, d: Outcome(IntV(0 if deref_ref(e, st, a[0]).attrs.get("which") == "root" else 1, "usize")))
    S(r"^walkdir::DirEntry::into_path$", lambda e, st, c, a, d: Outcome(P(a[0].attrs["expr"])))
    S(r"^walkdir::DirEntry::path$", lambda e, st, c, a, d: Outcome(RefV(Cell(P(deref_ref(e, st, a[0]).attrs["expr"], "Path")))))

    # ---- file system probes on abstract paths
    def s_canon(eng, st, callee, args, dty):
        p = pexpr(eng, st, args[0])
        return [Outcome(ok(P(("canon", p))), events=[Event("canonicalize", [p], "ok")]),
                *([] if st.ghost.get("nsources", 1) > 1 else [Outcome(err("std::io::Error"), events=[Event("canonicalize", [p], "err")])])]
    S(r"^(std::fs::)?canonicalize::<|^(std::path::)?Path::canonicalize$", s_canon)

    def s_lstat(eng, st, callee, args, dty):
        p = pexpr(eng, st, args[0])
        m = OpaqueV("std::fs::Metadata", "lstat:" + repr(p), {"of": p})
        tie(st, p)
        ioerr = lambda kind: AggV("Result", 1, [OpaqueV("std::io::Error", "lstat_error_%s_%d" % (kind, next(eng.fresh_ids)), {"kind": kind})], "Err")
        # lstat: ENOENT exactly when there is no such entry; any other failure may strike regardless
        return [Outcome(ok(m), [wfact("lexists", p)], events=[Event("symlink_metadata", [p], "ok")]),
                Outcome(ioerr("NotFound"), [z3.Not(wfact("lexists", p))], events=[Event("symlink_metadata", [p], "absent")]),
                *([] if st.ghost.get("nsources", 1) > 1 else [Outcome(ioerr("Other"), events=[Event("symlink_metadata", [p], "err")])])]
    def s_meta_is(nm):
        def h(e, st, c, a, d):
            m = deref_ref(e, st, a[0])
            if "stat_of" in m.attrs:
                return Outcome(BoolV(z3.BoolVal(False) if nm == "is_symlink" else wfact(nm, m.attrs["stat_of"])))
            return Outcome(BoolV(wfact("lstat_" + nm, m.attrs.get("of"))))
        return h
    for nm in ("is_file", "is_dir", "is_symlink"):
        front(r"^(std::fs::)?Metadata::%s$" % nm, s_meta_is(nm))
    front(r"^(std::path::)?Path::symlink_metadata$", s_lstat)
    front(r"^(std::fs::)?Metadata::file_type$", lambda e, st, c, a, d: Outcome(OpaqueV("std::fs::FileType", None, {"of": deref_ref(e, st, a[0]).attrs.get("of")})))

    def s_ftype(eng, st, callee, args, dty):
        of = args[0].attrs.get("of")
        outs = []
        first_of_two = st.ghost.get("nsources", 1) > 1 and st.ghost.get("cur_source", 0) == 0
        for k in KINDS:
            if k == "Symlink" and of and of[0] == "canon":
                continue    # canonicalize() resolves every link: its result is never a symlink
            if first_of_two and k not in ("File", "Dir"):
                continue    # two-source mode: the first source is kept simple, the second one is explored fully
            def eff(eng, s2, a2, k=k, of=of):
                if of == s2.ghost.get("root_expr") or (of and of[0] == "canon" and of[1] == s2.ghost.get("root_expr")):
                    s2.ghost["root_kind"] = k
            # the classification agrees with what lstat says about that path (facts shared with every other probe)
            conds = []
            if of is not None:
                tie(st, of)
                ls, ld, lf = (wfact("lstat_" + q, of) for q in ("is_symlink", "is_dir", "is_file"))
                conds = [ls == (k == "Symlink"), ld == (k == "Dir"), lf == (k == "File")]
            outs.append(Outcome(AggV("libfs::FileType", eng.variant_index("FileType", k), [], k), conds, events=[Event("kind", [of, k], None)], effect=eff))
        return outs
    S(r"^<libfs::FileType as From<std::fs::FileType>>::from$", s_ftype)

    def s_readlink(eng, st, callee, args, dty):
        p = pexpr(eng, st, args[0])
        return [Outcome(ok(P(("linktext", p))), events=[Event("read_link", [p], "ok")]),
                *([] if st.ghost.get("nsources", 1) > 1 else [Outcome(err("std::io::Error"), events=[Event("read_link", [p], "err")])])]
    S(r"^(std::fs::)?read_link::<", s_readlink)

    def s_mkdir(eng, st, callee, args, dty):
        p = pexpr(eng, st, args[0])
        return [Outcome(ok(), events=[Event("create_dir_all", [p], "ok")]),
                *([] if st.ghost.get("nsources", 1) > 1 else [Outcome(err("std::io::Error"), events=[Event("create_dir_all", [p], "err")])])]
    front(r"^(std::fs::)?create_dir_all::<", s_mkdir)

    def wfact(name, p):
        return fs_fact(name, repr(p))

    def tie(st, p):
        tied = st.ghost.setdefault("fs_tied", set())
        if repr(p) not in tied:
            tied.add(repr(p))
            st.pc += [z3.Implies(wfact("is_dir", p), wfact("exists", p)), z3.Implies(wfact("exists", p), wfact("lexists", p)),
                      z3.Implies(wfact("lstat_is_file", p), wfact("lexists", p)), z3.Implies(wfact("lstat_is_dir", p), wfact("lexists", p)),
                      z3.Implies(wfact("lstat_is_symlink", p), wfact("lexists", p)),
                      # an entry that is itself a directory / regular file is one for stat too; a link is neither itself
                      z3.Implies(wfact("lstat_is_dir", p), wfact("is_dir", p)), z3.Implies(wfact("lstat_is_file", p), wfact("is_file", p)),
                      z3.Implies(wfact("lstat_is_symlink", p), z3.Not(z3.Or(wfact("lstat_is_dir", p), wfact("lstat_is_file", p)))),
                      z3.Implies(z3.And(wfact("is_dir", p), z3.Not(wfact("lstat_is_symlink", p))), wfact("lstat_is_dir", p)),
                      z3.Implies(z3.And(wfact("is_file", p), z3.Not(wfact("lstat_is_symlink", p))), wfact("lstat_is_file", p)),
                      z3.Not(z3.And(wfact("is_dir", p), wfact("is_file", p))), z3.Implies(wfact("is_file", p), wfact("exists", p))]
            if p and p[0] == "canon":
                q = p[1]
                # canonicalize(q) names what q resolves to: never a link, and of the kind stat(q) reports
                st.pc += [z3.Not(wfact("lstat_is_symlink", p)), wfact("lstat_is_dir", p) == wfact("is_dir", q), wfact("lstat_is_file", p) == wfact("is_file", q)]

    def s_exists(name):
        def h(eng, st, callee, args, dty):
            p = pexpr(eng, st, args[0])
            tie(st, p)
            fsm = st.ghost.setdefault("fs", {})
            fsm[(name, repr(p))] = wfact(name, p)
            outs = [Outcome(BoolV(wfact(name, p)), events=[Event("Path::" + name, [p], BoolV(wfact(name, p)))])]
            # exists()/is_dir() answer `false` when the stat itself fails (explored once per path, single-source mode)
            if not st.ghost.get("stat_swallowed") and st.ghost.get("nsources", 1) == 1 and name in ("exists", "is_dir", "is_file"):
                def eff(eng, s2, a2):
                    s2.ghost["stat_swallowed"] = True
                outs.append(Outcome(BoolV(False), events=[Event("Path::" + name, [p], "stat-failed")], effect=eff))
            return outs
        return h
    front(r"^(std::path::)?Path::exists$", s_exists("exists"))
    front(r"^(std::path::)?Path::is_dir$", s_exists("is_dir"))
    front(r"^(std::path::)?Path::is_file$", s_exists("is_file"))

    def s_try_exists(eng, st, callee, args, dty):
        p = pexpr(eng, st, args[0])
        tie(st, p)
        return [Outcome(ok(BoolV(wfact("exists", p))), events=[Event("Path::try_exists", [p], BoolV(wfact("exists", p)))]),
                *([] if st.ghost.get("nsources", 1) > 1 else [Outcome(err("std::io::Error"), events=[Event("Path::try_exists", [p], "err")])])]
    front(r"^(std::path::)?Path::try_exists$", s_try_exists)

    def s_stat(eng, st, callee, args, dty):
        p = pexpr(eng, st, args[0])
        tie(st, p)
        m = OpaqueV("std::fs::Metadata", "stat:" + repr(p), {"stat_of": p})
        ioerr = lambda kind: AggV("Result", 1, [OpaqueV("std::io::Error", "stat_error_%s_%d" % (kind, next(eng.fresh_ids)), {"kind": kind})], "Err")
        absent = [z3.Not(wfact("exists", p))]
        notdir = []
        if isinstance(p, tuple) and p[0] == "join" and p[2] == ("str", ".gitignore"):
            # stat(<base>/.gitignore) below a base that is not a directory answers ENOTDIR, not ENOENT: still "there is no such file"
            base_nondir = z3.And(wfact("exists", p[1]), z3.Not(wfact("is_dir", p[1])))
            notdir = [Outcome(ioerr("NotADirectory"), absent + [base_nondir], events=[Event("Path::metadata", [p], "notdir")])]
            absent = absent + [z3.Not(base_nondir)]
        return [Outcome(ok(m), [wfact("exists", p)], events=[Event("Path::metadata", [p], "ok")]),
                Outcome(ioerr("NotFound"), absent, events=[Event("Path::metadata", [p], "absent")]), *notdir,
                *([] if st.ghost.get("nsources", 1) > 1 else [Outcome(ioerr("Other"), events=[Event("Path::metadata", [p], "err")])])]
    front(r"^(std::path::)?Path::metadata$", s_stat)
    front(r"^(std::path::)?Path::is_symlink$", s_exists("is_symlink"))

    # ---- channels
    def s_op_send(eng, st, callee, args, dty):
        return [Outcome(ok(), events=[Event("op", [args[1]], "ok")]),
                Outcome(AggV("Result", 1, [OpaqueV("SendError")], "Err"), events=[Event("op", [args[1]], "err")])]
    S(r"^crossbeam_channel::Sender::<Operation>::send$", s_op_send)

    def s_send(eng, st, callee, args, dty):
        return [Outcome(ok(), events=[Event("send", [args[1]], "ok")]),
                Outcome(err("anyhow::Error"), events=[Event("send", [args[1]], "err")])]
    S(r"^<dyn StatusUpdater as StatusUpdater>::send$", s_send)
    eng.add_drop_hook(r"Sender<Operation>", lambda e, st, v: st.trace.append(Event("sender-dropped", [], None)))
    return env


def term_arg_local(st):
    return 0


def _find_pred(eng, st):
    """the filter closure value captured by the FilterEntry iterator in this state"""
    for fr in reversed(st.frames):
        for c in fr.locals.values():
            v = c.v
            if isinstance(v, OpaqueV) and v.ty == "FilterEntry":
                return v.attrs["pred"]
    raise EngineAbort("filter closure not found")


def last_kind(src_expr):
    """index (std::path::Component order; 0 = none) of the source spelling's last component"""
    return z3.Int("last_component_of_%s" % re.sub(r"\W+", "_", repr(src_expr)))


def expected_target(eng, p, src_expr, rel_expr, cv, fsm):
    """cp's mapping rule as a list of (condition, expected target expr): a source whose spelling ends in a name goes to
    dest/name when dest is a directory; one that ends in `..`, `/` or is `.` has no name to append and goes into dest itself"""
    ex = fs_fact("exists", repr(("dest",)))
    isd = fs_fact("is_dir", repr(("dest",)))
    into = z3.And(ex, isd, z3.Not(cv["no_target_directory"].t), last_kind(src_expr) == 4)
    b_in = ("join", ("dest",), ("last", src_expr))
    b_self = ("dest",)
    t_in = b_in if rel_expr == ("empty",) else ("join", b_in, rel_expr)
    t_self = b_self if rel_expr == ("empty",) else ("join", b_self, rel_expr)
    return [(into, t_in), (z3.Not(into), t_self)]


def lemma_tree_walker(ctx):
    _walker(ctx, [("src",)])


def lemma_tree_walker_two_sources(ctx):
    """two sources: the per-source constants (target base, .gitignore matcher) are recomputed for the second source"""
    _walker(ctx, [("src0",), ("src1",)])


def _walker(ctx, src_exprs):
    eng = ctx.engine("libxcp", loop_bound=4 + len(src_exprs), timeout_s=3000)
    eng.max_paths = 400000
    install_walker_env(ctx, eng)
    fn = fn_named(eng.funcs, "tree_walker")
    st = State()
    cfg, cv = mk_config(ctx, eng, st)
    st.ghost["root_expr"] = src_exprs[0]
    st.ghost["nsources"] = len(src_exprs)
    sources = OpaqueV("Vec<PathBuf>", None, {"items": [P(x) for x in src_exprs]})
    dest = RefV(Cell(P(("dest",), "Path")))
    tx = OpaqueV("crossbeam_channel::Sender<Operation>", "work_tx")
    upd = mk_arc(OpaqueV("dyn StatusUpdater", "updater"), "Arc<dyn StatusUpdater>", "stat", rc=2)
    paths = eng.run(fn.name, [sources, dest, RefV(Cell(cfg)), tx, upd], st)
    ctx.paths += len(paths)
    seen = set()
    for p in paths:
        names = trace_names(p)
        if p.ghost.get("stat_swallowed"):
            okp = p.status == "return" and is_err(p.ret)
            (ctx.passed if okp else ctx.fail)(
                "C02/C04/C08: a failed stat of the destination is an error, not 'nothing there' (the mapping dest/<name> vs dest must not flip on it)",
                str(names[-8:]), **({} if okp else {"key": "stat-error-taken-for-absent"}))
            continue
        if p.status == "bound":
            ctx.fail("tree_walker: explored within the loop bound", p.msg)
            continue
        if p.status != "return":
            ctx.fail("tree_walker: path ends in return", "%s %s %s" % (p.status, p.msg, names[-6:]))
            continue
        ev = p.trace
        fsm = p.ghost.get("fs", {})
        # C07: the walker's sender is dropped on every exit (closing the work queue)
        nd = len([e for e in ev if e.name == "sender-dropped"])
        (ctx.passed if nd == 1 else ctx.fail)("C07: the work queue's only sender is dropped when the walker returns (Ok or Err)", "%d drops; %s" % (nd, names[-5:]))
        # split the trace into per-entry segments
        segs, cur, cur_src = [], None, src_exprs[0]
        for e in ev:
            if e.name == "source":
                cur_src = src_exprs[e.args[0]]
            if e.name == "walk-entry":
                cur = {"which": e.args[0], "expr": e.args[1], "ok": e.ret == "ok", "ev": [], "src": cur_src}
                segs.append(cur)
            elif e.name in ("walk-end", "walk-filtered"):
                if e.name == "walk-filtered" and cur is not None:
                    cur["filtered"] = True
                cur = None if e.name == "walk-end" else cur
            elif cur is not None:
                cur["ev"].append(e)
        errs = [e for e in ev if is_errev(e)]
        if errs and not is_err(p.ret):
            ctx.fail("C02/C04/C13: a failed %s makes the walker return Err" % errs[0].name, str(names[-8:]))
        elif errs:
            ctx.passed("C02/C04/C13: every failed call (an entry the walk could not read or resolve included) makes the walker return Err")
        # ---- gitignore wiring (C17)
        gi_new = [e for e in ev if e.name == "gi.new"]
        gi_build = [e for e in ev if e.name == "gi.build" and e.ret == "ok"]
        matched = [e for e in ev if e.name == "gi.matched"]
        git = cv["gitignore"].t
        if gi_new or matched:
            ctx.lemma(eng, "C17: the ignore machinery is only consulted with --gitignore", p.pc, git)
        elif segs:
            ctx.lemma(eng, "C17: with --gitignore every walked entry is put to the matcher", p.pc, z3.Not(git))
        # C02/C08: a source that is itself a symbolic link is one entry (the link); walking what it leads to would create
        # entries beneath a link in the destination, i.e. write through it to somewhere no source maps onto
        if p.ghost.get("under_root_link"):
            ctx.lemma(eng, "C02/C08: without --dereference nothing beneath a source that is itself a symbolic link is walked (the link is the entry to copy)",
                      p.pc, cv["dereference"].t, key="walker:root-symlink-followed")
        # C14/C17/C13: a source that is not a directory (a file, a FIFO, a device, a link to a file under -L) has no .gitignore: ENOTDIR from the
        # stat of <source>/.gitignore means "no ignore file", the copy goes ahead with an empty matcher
        for i in [i for i, x in enumerate(ev) if x.name == "Path::metadata" and x.ret == "notdir"]:
            nm_ = "C13/C14/C17: with --gitignore a source that is not a directory is still copied (ENOTDIR from the stat of <source>/.gitignore means 'no ignore file', not a failure)"
            if any(x.name == "gi.build" for x in ev[i + 1:]):
                ctx.passed(nm_)
            else:
                ctx.fail(nm_, str(names[-6:]), key="walker:gitignore-enotdir")
        for e in [x for x in ev if x.name == "gi.add"]:
            ctx.lemma(eng, "C07/C14: the ignore file is opened only if it is a regular file (a FIFO named .gitignore would block the walk for ever)",
                      p.pc, fs_fact("is_file", repr(e.args[0])), key="walker:gitignore-fifo-opened")
        for e in gi_build:
            root, files = e.args
            gif = ("join", root, ("str", ".gitignore"))
            if root in src_exprs and files == ():
                # no file handed to the builder: legitimate only when there is no regular file of that name
                ctx.lemma(eng, "C17: the source's .gitignore is left out only when it is not a regular file", p.pc, z3.Not(fs_fact("is_file", repr(gif))))
            elif root not in src_exprs or files != (gif,):
                ctx.fail("C17: the matcher is built from <source>/.gitignore with the source as its root", repr(e.args))
            else:
                ctx.passed("C17: the matcher is built from <source>/.gitignore with the source as its root")
        for seg in segs:
            m = [e for e in seg["ev"] if e.name == "gi.matched"]
            if m:
                e = m[0]
                if e.args[0] != seg["expr"] or e.args[2] != seg["src"]:
                    ctx.fail("C17: the matcher is asked about the walked entry's own path", repr(e.args))
                if not isinstance(e.args[1], BoolV):
                    ctx.fail("C17: the matcher is told whether the entry is a directory", repr(e.args))
                else:
                    # git's notion: the entry itself is a directory (a symbolic link to one is not), unless links are followed
                    pe = repr(seg["expr"])
                    want = z3.If(cv["dereference"].t, fs_fact("is_dir", pe), fs_fact("lstat_is_dir", pe))
                    ctx.lemma(eng, "C17: the matcher is told whether the entry is a directory (the entry itself: a link to a directory is not one, unless links are followed)",
                              p.pc, e.args[1].t == want, key="walker:gitignore-isdir-follows-links")
                if seg["which"] == "root" and seg.get("filtered"):
                    ctx.fail("C17: the source root itself is never filtered out (git never ignores the work tree's root; `*` with `!a` would skip the whole copy)",
                             str(names[-6:]), key="walker:gitignore-root-filtered")
                if seg.get("filtered"):
                    ctx.lemma(eng, "C17: an entry is skipped only when the matcher says 'ignore'", p.pc, e.ret.t)
                    if [x for x in seg["ev"] if x.name in ("op", "create_dir_all", "send")]:
                        ctx.fail("C17: nothing is done for an ignored entry", str([x.name for x in seg["ev"]]))
                    seen.add("filtered")
                else:
                    ctx.lemma(eng, "C17: an entry the matcher does not ignore is walked", p.pc, z3.Not(e.ret.t))
        # ---- per entry obligations
        for seg in segs:
            if not seg["ok"] or seg.get("filtered"):
                continue
            sev = seg["ev"]
            kind = [e for e in sev if e.name == "kind"]
            ops = [e for e in sev if e.name == "op"]
            mk = [e for e in sev if e.name == "create_dir_all"]
            sz = [e for e in sev if e.name == "send" and isinstance(e.args[0], AggV) and e.args[0].vname == "Size"]
            errup = [e for e in sev if e.name == "send" and isinstance(e.args[0], AggV) and e.args[0].vname == "Error"]
            canon = [e for e in sev if e.name == "canonicalize"]
            ex_t = [e for e in sev if e.name == "Path::exists"]
            deref = cv["dereference"].t
            # C13: canonicalize is used exactly when dereferencing
            if canon:
                ctx.lemma(eng, "C13: paths are resolved (canonicalize) only with --dereference", p.pc, deref)
                if canon[0].args[0] != seg["expr"]:
                    ctx.fail("C13: the walked path itself is resolved", repr(canon[0].args))
            elif kind:
                # an entry that is not itself a link needs no resolving: the claim is about links
                ctx.lemma(eng, "C13: with --dereference every walked entry that is a symbolic link is resolved before it is classified", p.pc,
                          z3.Not(z3.And(deref, fs_fact("lstat_is_symlink", repr(seg["expr"])))))
            rel = ("empty",) if seg["which"] == "root" else ("rel",)
            exp = expected_target(eng, p, seg["src"], rel, cv, fsm)

            def check_target(texpr, what):
                conds = [c for c, t in exp if t == texpr]
                claim = z3.Or(*conds) if conds else z3.BoolVal(False)
                return ctx.lemma(eng, "C02: %s goes to cp's mapped path (dest/basename[/rel] into an existing directory, else dest[/rel])" % what,
                                 p.pc, claim, info={"target": repr(texpr), "entry": repr(seg["expr"])})
            # C08: collision check happens before anything is done for the entry
            noclob = cv["no_clobber"].t
            collided = None
            # the collision probe: whichever stat-like question the code asks about a path other than the entry it is copying.
            # What counts as "already there" is the *entry* (lstat): a dangling symbolic link exists and would be written through
            src_side = (seg["expr"], ("canon", seg["expr"]))
            # (only what is asked *before* the entry is classified: the directory arm's own look at an existing target comes later)
            upto = sev.index(kind[0]) if kind else len(sev)
            ex_t = [e for e in sev[:upto] if e.name in ("Path::exists", "Path::try_exists", "symlink_metadata", "Path::is_symlink", "Path::is_file")
                    and e.args and e.args[0] not in src_side]
            if ex_t:
                ctx.lemma(eng, "C08: the destination is probed for collisions only under no-clobber", p.pc, noclob)
                collided = fs_fact("lexists", repr(ex_t[0].args[0]))
                check_target(ex_t[0].args[0], "the no-clobber probe")
            if errup and any(isinstance(e.args[0].fields[0], AggV) and e.args[0].fields[0].vname == "DestinationExists" for e in errup):
                seen.add("collision")
                ctx.lemma(eng, "C08: a collision is reported only for an existing destination under no-clobber", p.pc, z3.And(noclob, collided if collided is not None else z3.BoolVal(False)))
                if ops or mk or sz:
                    ctx.fail("C08: nothing is queued or created for an entry that collides", str([e.name for e in sev]))
                (ctx.passed if is_err(p.ret) else ctx.fail)("C08: a collision ends the walk with an error", str(names[-5:]))
                continue
            if not kind:
                gone = any(e.ret == "absent" for e in sev) and p.status == "return" and is_err(p.ret)    # lstat: ENOENT, the walk fails
                if not any(is_errev(e) for e in sev) and not errup and not gone:
                    ctx.fail("C02: no walked entry is silently skipped (every entry is classified and acted upon, or the walk fails)",
                             "entry %r: %s" % (seg["expr"], [e.name for e in sev]))
                continue
            k = kind[0].args[1]
            frm_expected = ("canon", seg["expr"]) if canon else seg["expr"]
            if kind[0].args[0] != frm_expected:
                ctx.fail("C02/C13: the entry is classified by lstat of the (resolved) walked path", repr(kind[0].args))
            any_action = ops or mk
            if any_action:
                # the fact that matters is "something exists at the mapped target", whichever probe the code uses
                tgt = mk[0].args[0] if mk else pexpr(eng, p, ops[0].args[0].fields[1])
                exists_t = fs_fact("exists", repr(tgt))
                lex_t = fs_fact("lexists", repr(tgt))
                ax = [z3.Implies(fs_fact("is_dir", repr(tgt)), exists_t), z3.Implies(exists_t, lex_t),
                      z3.Implies(fs_fact("lstat_is_file", repr(tgt)), lex_t), z3.Implies(fs_fact("lstat_is_symlink", repr(tgt)), lex_t)]
                probe_failed = any(e.ret == "err" for e in ex_t)
                if probe_failed:
                    # the stat itself failed and the code went on as if nothing were there: the separate "failed stat taken for
                    # absent" family (std's exists()/is_ok() idiom), see DESIGN section 6 (F7)
                    ctx.lemma(eng, "C04/C08: a failed stat of the destination is not taken for 'nothing there' (no-clobber decision)", p.pc, z3.Not(noclob),
                              key="stat-error-taken-for-absent")
                else:
                    ctx.lemma(eng, "C08: under no-clobber nothing is queued or created onto an existing destination entry (a dangling symbolic link is an entry too)",
                              p.pc + ax, z3.Implies(noclob, z3.Not(lex_t)), info={"target": repr(tgt)}, key="walker:noclobber-dangling-link")
            if any_action and collided is None:
                ctx.lemma(eng, "C08: under no-clobber every entry is probed before it is acted upon", p.pc, z3.Not(noclob))
            if any(is_errev(e) for e in sev):
                continue
            seen.add(k)
            if k == "File":
                if len(ops) != 1 or ops[0].args[0].vname != "Copy":
                    ctx.fail("C02: a regular file yields exactly one Copy operation", str([e.name for e in sev]))
                    continue
                o = ops[0].args[0]
                if pexpr(eng, p, o.fields[0]) != frm_expected:
                    ctx.fail("C02/C13: Copy reads from the (resolved) walked path", repr(o.fields[0]))
                check_target(pexpr(eng, p, o.fields[1]), "a regular file")
                if len(sz) != 1 or sev.index(sz[0]) > sev.index(ops[0]):
                    ctx.fail("C12: the file's size is announced once, before its Copy operation is queued", str([e.name for e in sev]))
                else:
                    lv = sz[0].args[0].fields[0]
                    okk = isinstance(lv, IntV) and str(lv.t).startswith("len_lstat")
                    (ctx.passed if okk else ctx.fail)("C12: the announced size is the length from the entry's metadata", repr(lv))
            elif k == "Symlink":
                if len(ops) != 1 or ops[0].args[0].vname != "Link":
                    ctx.fail("C02: a symbolic link yields exactly one Link operation", str([e.name for e in sev]))
                    continue
                o = ops[0].args[0]
                if pexpr(eng, p, o.fields[0]) != ("linktext", frm_expected):
                    ctx.fail("C02: Link carries the link's own target text (read_link)", repr(o.fields[0]))
                else:
                    ctx.passed("C02: Link carries the link's own target text (read_link)")
                check_target(pexpr(eng, p, o.fields[1]), "a symbolic link")
                ctx.lemma(eng, "C13: with --dereference no Link operation is ever emitted", p.pc, z3.Not(deref))
                if sz:
                    ctx.fail("C12: only regular files announce a size", str([e.name for e in sev]))
            elif k == "Dir":
                if not ops and not mk and p.status == "return" and is_err(p.ret):
                    continue      # refused: a non-directory is in the way at the mapped path (reported, nothing created)
                if ops or len(mk) != 1:
                    ctx.fail("C02/C06: a directory is created synchronously by the walker (no queued operation)", str([e.name for e in sev]))
                    continue
                check_target(mk[0].args[0], "a directory")
                # create_dir_all() is content with a symbolic link to a directory: everything beneath would be written
                # through the link to wherever it leads (outside the destination).  cp: "cannot overwrite non-directory".
                tgt_ = repr(mk[0].args[0])
                ctx.lemma(eng, "C02: a directory is created at, or merged into, a real directory -- never through an existing symbolic link at that path",
                          p.pc + [z3.Implies(fs_fact("lstat_is_symlink", tgt_), fs_fact("lexists", tgt_)),
                                  z3.Not(z3.And(fs_fact("lstat_is_symlink", tgt_), fs_fact("lstat_is_dir", tgt_)))],
                          z3.Not(fs_fact("lstat_is_symlink", tgt_)), key="walker:dir-through-existing-symlink")
            elif k in ("Socket", "Fifo", "Char"):
                if len(ops) != 1 or ops[0].args[0].vname != "Special":
                    ctx.fail("C14: sockets, FIFOs and character devices yield a Special operation", str([e.name for e in sev]))
                    continue
                o = ops[0].args[0]
                if pexpr(eng, p, o.fields[0]) != frm_expected:
                    ctx.fail("C14: Special recreates the (resolved) walked node", repr(o.fields[0]))
                check_target(pexpr(eng, p, o.fields[1]), "a special file")
            else:
                if ops or mk:
                    ctx.fail("C14: block devices and unknown kinds are not copied", str([e.name for e in sev]))
                (ctx.passed if is_err(p.ret) else ctx.fail)("C14: block devices and unknown kinds make the run fail", str(names[-5:]))
        # C02/C06: a directory is created before anything beneath it is queued (program order, root before descendant)
        okseg = [s for s in segs if s["ok"] and not s.get("filtered") and s["src"] == src_exprs[-1]]
        if len(okseg) == 2:
            first = [e for e in okseg[0]["ev"] if e.name == "create_dir_all"]
            second = [e for e in okseg[1]["ev"] if e.name in ("op", "create_dir_all")]
            if second and not (first and ev.index(first[0]) < ev.index(second[0])):
                ctx.fail("C02/C06: the parent directory exists before anything beneath it is queued or created", str(names))
            elif second:
                ctx.passed("C02/C06: the parent directory exists before anything beneath it is queued or created")
                seen.add("nested")
        # C13/F8: dereference must make the walk follow links to directories
        wd = [e for e in ev if e.name == "WalkDir::new"]
        fl = [e for e in ev if e.name == "WalkDir::follow_links"]
        for e in ev:
            if e.name in ("WalkDir::min_depth", "WalkDir::max_depth", "WalkDir::same_file_system"):
                ctx.fail("C02: the walk is not restricted in depth or to one file system (every entry of the tree is selected)", e.name)
        if wd:
            if fl:
                ctx.lemma(eng, "C13: with --dereference the walk follows links to directories (their contents are copied)", p.pc, fl[0].args[0].t == cv["dereference"].t)
            else:
                sat, _ = eng.check(p.pc + [cv["dereference"].t])
                if sat:
                    ctx.fail("C13: with --dereference the walk follows links to directories (their contents are copied)",
                             "WalkDir is never told to follow links: a link to a directory becomes an empty directory, exit 0",
                             key="walker:deref-does-not-follow-dir-links")
    for k in KINDS + ["collision", "nested"]:
        (ctx.passed if k in seen else ctx.fail)("witness: %s" % k, str(sorted(seen)))
    if len(src_exprs) > 1:
        ctx.bounds = ("two sources: the first restricted to its root entry (file or directory), the second explored fully (root + one arbitrary "
                      "descendant, all kinds, all flags, every call may fail)")
        return
    ctx.bounds = "one source; its root entry and one arbitrary descendant (per-entry induction: the loop carries no state but the per-source constants); all 8 kinds, all flag values, every call may fail; abstract (structural) paths"
