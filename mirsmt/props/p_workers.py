"""copy_worker (parfile) and dispatch_worker (parblock): one arbitrary operation from the queue
(C04, C08, C14, C02 link creation, C07 queue closure, C20 pool construction, C10 parfile finalisation)."""
import re
import z3

from props.common import *
from props.env import install_env, path_id, fs_fact, fs_axioms


# "op_to designates the very inode op_from designates" (another spelling, a hard link, a symlink to it)
ALIAS = z3.Bool("op_from_and_op_to_are_the_same_inode")


def _channel(eng, ops):
    """`for op in work`: the first recv yields an arbitrary operation (one path per kind), the second
    reports the closed queue.  Workers carry no state across iterations except config/updater."""
    def s_next(eng, st, callee, args, dty):
        n = st.ghost.get("recv", 0)
        st.ghost["recv"] = n + 1
        if n == 0:
            outs = []
            for kind in ops:
                op = AggV("Operation", eng.variant_index("Operation", kind),
                          [OpaqueV("PathBuf", "op_from"), OpaqueV("PathBuf", "op_to")], kind)
                outs.append(Outcome(AggV("Option", 1, [op], "Some"), events=[Event("recv", [kind], None)]))
            outs.append(Outcome(AggV("Option", 0, [], "None"), events=[Event("recv", ["closed"], None)]))
            return outs
        return Outcome(AggV("Option", 0, [], "None"), events=[Event("recv", ["closed"], None)])
    eng.add_summary(r"^<crossbeam_channel::IntoIter<Operation> as Iterator>::next$", s_next)
    eng.add_summary(r"^<crossbeam_channel::Receiver<Operation> as IntoIterator>::into_iter$", lambda e, st, c, a, d: Outcome(OpaqueV("IntoIter<Operation>", "work_iter")))


def _common(ctx, eng):
    install_env(ctx, eng)

    def s_send(eng, st, callee, args, dty):
        return [Outcome(ok(), events=[Event("send", [args[1]], "ok")]),
                Outcome(err("anyhow::Error"), events=[Event("send", [args[1]], "err")])]
    eng.add_summary(r"^<dyn StatusUpdater as StatusUpdater>::send$", s_send)
    eng.add_summary(r"^(std::)?(fmt::)?format$|^must_use::<", lambda e, st, c, a, d: Outcome(a[0] if c.startswith("must_use") else OpaqueV("String", None)))

    def s_and_then(eng, st, callee, args, dty):
        r = args[0]
        if is_err(r):
            return Outcome(r)
        m = re.search(r"(\{closure@[^}]*\})", callee)
        for name, fn in eng.funcs.items():
            if "{closure#" in name and fn.args and m.group(1) in fn.args[0][1]:
                return ("inline", fn, [args[1], r.fields[0]])
        raise EngineAbort("and_then closure not found")
    eng.add_summary(r"^Result::<CopyHandle, anyhow::Error>::and_then::<", s_and_then)

    def s_new(eng, st, callee, args, dty):
        h = OpaqueV("operations::CopyHandle", "handle", {"from": path_id(eng, st, args[0]), "to": path_id(eng, st, args[1])})
        a = [path_id(eng, st, args[0]), path_id(eng, st, args[1])]
        return [Outcome(ok(h), events=[Event("CopyHandle::new", a, "ok")]),
                Outcome(err("anyhow::Error"), events=[Event("CopyHandle::new", a, "err")])]
    eng.add_summary(r"^CopyHandle::new$", s_new)

    # identity of two paths (libfs::is_same_file): a file-system fact like exists(); an alias of the source exists
    def s_same(eng, st, callee, args, dty):
        a = [path_id(eng, st, args[0]), path_id(eng, st, args[1])]
        names = sorted(getattr(x, "name", repr(x)) for x in a)
        fact = ALIAS if names == ["op_from", "op_to"] else z3.Bool("same_inode_%s_%s" % tuple(names))
        return [Outcome(ok(BoolV(fact)), events=[Event("identity-check", a, BoolV(fact))]),
                Outcome(err("libfs::Error"), events=[Event("identity-check", a, "err")])]
    eng.add_summary(r"^(libfs::)?is_same_file$", s_same)

    def s_copy_file(eng, st, callee, args, dty):
        return [Outcome(ok(IntV(0, "u64")), events=[Event("copy_file", [], "ok")]),
                Outcome(err("anyhow::Error"), events=[Event("copy_file", [], "err")])]
    eng.add_summary(r"^CopyHandle::copy_file$", s_copy_file)
    eng.add_drop_hook(r"CopyHandle$", lambda e, st, v: st.trace.append(Event("finalise", [v.name], None)))


def _check_arms(ctx, eng, paths, cv, driver):
    kinds = set()
    for p in paths:
        names = trace_names(p)
        if p.ghost.get("stat_swallowed"):
            # a stat of the destination failed and exists()/is_dir() answered "no": nothing may be decided on that
            (ctx.passed if (p.status == "return" and is_err(p.ret)) else ctx.fail)(
                "C03/C04/C08/C09: a failed stat of the destination is an error, not 'nothing there' (no overwrite, skipped backup or skipped identity check rests on it)",
                str(names), **({} if (p.status == "return" and is_err(p.ret)) else {"key": "stat-error-taken-for-absent"}))
            continue
        rec = [e.args[0] for e in p.trace if e.name == "recv"]
        kind = rec[0] if rec else "?"
        if p.status == "panic":
            ctx.fail("%s: no panic" % driver, "%s %s" % (p.msg, names))
            continue
        if p.status != "return":
            ctx.fail("%s: path ends in return" % driver, "%s %s %s" % (p.status, p.msg, names))
            continue
        errs = [e for e in p.trace if is_errev(e) and e.name != "send"]
        sends = [e for e in p.trace if e.name == "send"]
        err_updates = [e for e in sends if isinstance(e.args[0], AggV) and e.args[0].vname == "Error"]
        pn = lambda e: [getattr(a, "name", "?") for a in e.args]
        # C14/C07: a special source is never opened
        if kind == "Special" and any(e.name in ("File::open", "File::create", "CopyHandle::new", "copy_file") for e in p.trace):
            ctx.fail("C14/C07: special files are recreated with mknod, never opened or read", str(names))
        # C03: for a Copy operation the worker itself performs no file-system mutation: everything goes through the
        # CopyHandle (whose own refusal/ordering lemmas cover aliasing); in particular nothing is removed "to clean up"
        # after a failure, because the destination may designate the source itself
        if kind == "Copy":
            stray = [e for e in p.trace if e.name in ("remove_file", "rename", "symlink", "create_dir_all", "copy_node", "File::create", "File::open_opts")]
            if stray:
                ctx.fail("C03: a worker never removes, renames or creates anything itself for a Copy operation (the destination may be an alias of the source)",
                         "%s in the Copy arm; trace %s" % (stray[0].name, names))
            else:
                ctx.passed("C03: a worker never removes, renames or creates anything itself for a Copy operation (the destination may be an alias of the source)")
        if kind == "closed":
            kinds.add("closed")
            (ctx.passed if is_ok(p.ret) and rec == ["closed"] else ctx.fail)("C07: a closed work queue ends the worker normally", str(names))
            if driver == "dispatch_worker":
                j = [e for e in p.trace if e.name == "pool.join"]
                (ctx.passed if len(j) == 1 else ctx.fail)("C06/C07: the dispatcher waits for the block pool before returning", str(names))
            continue
        if errs:
            reported = is_err(p.ret) or bool(err_updates)
            key = None
            name = "C04: a failed %s in the %s arm is reported (Err return or Error update)" % (errs[0].name, kind)
            if not reported and errs[0].name == "symlink" and driver == "copy_worker":
                key = "parfile:symlink-result-discarded"
                name = "C02/C04: a failed symlink() in the parfile worker is reported (Err return or Error update)"
            if reported:
                ctx.passed(name)
            else:
                ctx.fail(name, str(names), key=key)
            continue
        kinds.add(kind)
        if kind == "Copy":
            if driver == "copy_worker":
                new = [e for e in p.trace if e.name == "CopyHandle::new"]
                if len(new) != 1 or pn(new[0]) != ["op_from", "op_to"]:
                    ctx.fail("C02: Copy(from, to) opens exactly (from, to)", str(names))
                cf = [e for e in p.trace if e.name == "copy_file"]
                fin = [e for e in p.trace if e.name == "finalise"]
                if len(cf) != 1 or len(fin) != 1 or p.trace.index(fin[0]) < p.trace.index(cf[0]):
                    ctx.fail("C10/C18: parfile finalises a file exactly once, after its data copy returned", str(names))
                else:
                    ctx.passed("C10/C18: parfile finalises a file exactly once, after its data copy returned")
                nxt = [i for i, e in enumerate(p.trace) if e.name == "recv"]
                if len(nxt) > 1 and p.trace.index(fin[0]) > nxt[1]:
                    ctx.fail("C20: a parfile worker closes its handle before taking the next operation", str(names))
                else:
                    ctx.passed("C20: a parfile worker closes its handle before taking the next operation")
            else:
                q = [e for e in p.trace if e.name == "queue_file_blocks"]
                if len(q) != 1 or pn(q[0])[:2] != ["op_from", "op_to"]:
                    ctx.fail("C02: the dispatcher queues blocks for exactly (from, to)", str(names))
        elif kind == "Link":
            sl = [e for e in p.trace if e.name == "symlink"]
            if len(sl) != 1 or pn(sl[0]) != ["op_from", "op_to"]:
                ctx.fail("C02: Link(text, to) creates the link `to` with the recorded target text", str(names))
            else:
                ctx.passed("C02: Link(text, to) creates the link `to` with the recorded target text")
        elif kind == "Special":
            ex = [e for e in p.trace if e.name.startswith("Path::")]
            rm = [e for e in p.trace if e.name == "remove_file"]
            cn = [e for e in p.trace if e.name == "copy_node"]
            noclob = cv["no_clobber"].t
            if not ex or pn(ex[0]) != ["op_to"]:
                ctx.fail("C08/C14: the worker probes the destination of a special file", str(names))
                continue
            # the fact the lemmas are about is "something exists at the destination", whichever probe the code uses
            # "something is there": the entry itself (lstat) -- a dangling symbolic link at the destination is an entry
            existed = fs_fact("lexists", "op_to")
            p.pc = p.pc + fs_axioms("op_to") + [z3.Implies(ALIAS, fs_fact("exists", "op_to"))]
            # C03: the entry at the destination may be the source itself under another spelling: removing it deletes the source
            if rm:
                ctx.lemma(eng, "C03: the special-file arm never removes the destination entry when it designates the source itself (another spelling of the same node)",
                          p.pc, z3.Not(ALIAS), key="worker-special:alias-removed")
            if is_err(p.ret):
                ctx.lemma(eng, "C08: the special-file arm refuses only for an existing destination under no-clobber (or one that is the source itself)", p.pc,
                          z3.And(existed, z3.Or(noclob, ALIAS)))
                if rm or cn:
                    ctx.fail("C08: nothing is removed or created once the collision is detected", str(names))
                continue
            if rm:
                ctx.lemma(eng, "C08: an existing destination entry is removed only without no-clobber", p.pc, z3.And(existed, z3.Not(noclob)))
                if pn(rm[0]) != ["op_to"]:
                    ctx.fail("C14: only the mapped destination is removed", str(names))
            else:
                ctx.lemma(eng, "C14: an existing entry is replaced (removed first) unless no-clobber is set", p.pc, z3.Not(existed))
            if len(cn) != 1 or cn[0].args != ["op_from", "op_to"]:
                ctx.fail("C14: the node is created from (from, to)", "%s %r" % (names, cn[0].args if cn else None))
            elif rm and p.trace.index(rm[0]) > p.trace.index(cn[0]):
                ctx.fail("C14: the old entry is removed before the node is created", str(names))
            ctx.lemma(eng, "C08: with no-clobber an existing destination is never passed to mknod", p.pc, z3.Not(z3.And(existed, noclob)))
    for k in ("Copy", "Link", "Special", "closed"):
        (ctx.passed if k in kinds else ctx.fail)("witness: %s arm of %s explored" % (k, driver), str(sorted(kinds)))


def lemma_copy_worker(ctx):
    eng = ctx.engine("libxcp", loop_bound=3)
    _common(ctx, eng)
    _channel(eng, ["Copy", "Link", "Special"])
    fn = fn_named(eng.funcs, "copy_worker")
    st = State()
    cfg, cv = mk_config(ctx, eng, st)
    cfg_arc = mk_arc(cfg, "Arc<config::Config>", "cfg_arc", rc=2)
    upd = mk_arc(OpaqueV("dyn StatusUpdater", "updater"), "Arc<dyn StatusUpdater>", "stat", rc=2)
    paths = eng.run(fn.name, [OpaqueV("Receiver<Operation>", "work"), RefV(Cell(cfg_arc)), upd], st)
    ctx.paths += len(paths)
    _check_arms(ctx, eng, paths, cv, "copy_worker")
    ctx.bounds = "one arbitrary operation of each kind then queue closure; every call may fail once; no-clobber symbolic; workers <= 65536"


def lemma_dispatch_worker(ctx):
    eng = ctx.engine("libxcp", loop_bound=3)
    _common(ctx, eng)
    _channel(eng, ["Copy", "Link", "Special"])

    def s_qfb(eng, st, callee, args, dty):
        a = [path_id(eng, st, args[0]), path_id(eng, st, args[1])]
        return [Outcome(ok(IntV(0, "u64")), events=[Event("queue_file_blocks", a, "ok")]),
                Outcome(err("anyhow::Error"), events=[Event("queue_file_blocks", a, "err")])]
    eng.add_summary(r"^queue_file_blocks$", s_qfb)
    pool = {}

    def s_builder(name):
        def h(eng, st, callee, args, dty):
            b = args[0] if args and isinstance(args[0], OpaqueV) else OpaqueV("Builder", "pool_builder")
            if len(args) > 1:
                b.attrs[name] = args[1]
            return Outcome(b, events=[Event("pool." + name, [args[1]] if len(args) > 1 else [], None)])
        return h
    eng.add_summary(r"^blocking_threadpool::Builder::new$", s_builder("new"))
    eng.add_summary(r"^blocking_threadpool::Builder::num_threads$", s_builder("num_threads"))
    eng.add_summary(r"^blocking_threadpool::Builder::queue_len$", s_builder("queue_len"))
    eng.add_summary(r"^blocking_threadpool::Builder::build$", lambda e, st, c, a, d: Outcome(OpaqueV("ThreadPool", "pool", dict(a[0].attrs)), events=[Event("pool.build", [a[0].attrs.get("num_threads"), a[0].attrs.get("queue_len")], None)]))
    eng.add_summary(r"^ThreadPool::join$", lambda e, st, c, a, d: Outcome(UnitV(), events=[Event("pool.join", [], None)]))
    eng.inline += [r"^Config::num_workers$"]
    def s_ncpu(eng, st, callee, args, dty):
        n = eng.fresh_int(st, "usize", "ncpu")
        return Outcome(n, [n.t >= 1, n.t <= 65536])
    eng.add_summary(r"^num_cpus::get$|^get$", s_ncpu)
    fn = fn_named(eng.funcs, "dispatch_worker")
    st = State()
    cfg, cv = mk_config(ctx, eng, st)
    st.pc.append(cv["workers"].t <= 65536)      # stated bound: worker counts beyond 2^16 are outside the claim
    cfg_arc = mk_arc(cfg, "Arc<config::Config>", "cfg_arc", rc=2)
    upd = mk_arc(OpaqueV("dyn StatusUpdater", "updater"), "Arc<dyn StatusUpdater>", "stat", rc=2)
    paths = eng.run(fn.name, [OpaqueV("Receiver<Operation>", "work"), RefV(Cell(upd)), cfg_arc], st)
    ctx.paths += len(paths)
    _check_arms(ctx, eng, paths, cv, "dispatch_worker")
    # C20: bounded queue, worker count from the configuration
    for p in paths:
        if p.status != "return" or p.ghost.get("stat_swallowed"):
            continue        # panics / bounds / swallowed stat failures are reported by the arm checks above
        b = [e for e in p.trace if e.name == "pool.build"]
        if not b and is_err(p.ret) and not [e for e in p.trace if e.name in ("recv", "queue_file_blocks", "symlink", "copy_node")]:
            continue        # set-up failed before any work was taken (e.g. a failed limit query): reported, nothing opened
        if len(b) != 1:
            ctx.fail("C20: exactly one block pool is built", str(trace_names(p)))
            continue
        nt, ql = b[0].args
        if not isinstance(nt, IntV):
            ctx.fail("C20: the pool size comes from the configuration", "no num_threads")
            continue
        ctx.lemma(eng, "C20: the pool has `workers` threads (or the CPU count for 0)", p.pc,
                  z3.Or(nt.t == cv["workers"].t, cv["workers"].t == 0))
        if not isinstance(ql, IntV):
            ctx.fail("C20: the block pool has a bounded job queue (back-pressure on the dispatcher)", "no queue_len")
        else:
            # files open at once: one per queued job, one per running job, the one being dispatched; two descriptors
            # each.  The limit that open(2) enforces is the soft RLIMIT_NOFILE: 1024 (the default the property names)
            # unless the code itself asked getrlimit, in which case it is whatever that call reported (>= 1024).
            soft = p.ghost.get("rlimit_soft")
            lim = soft.t if soft is not None else z3.IntVal(1024)
            pre = [nt.t >= 1, nt.t <= 64] + ([soft.t >= 1024] if soft is not None else [])
            ctx.lemma(eng, "C06/C20: the job queue is bounded (>= 1) and 2*(queue + workers + 1) descriptors fit the soft descriptor limit for 1..64 workers (otherwise EMFILE depends on how far the dispatcher gets ahead of the workers)",
                      p.pc + pre, z3.And(ql.t >= 1, 2 * (ql.t + nt.t + 1) <= lim))
    ctx.bounds = "one arbitrary operation of each kind then queue closure; every call may fail once; no-clobber symbolic; workers <= 65536"
