import sys, os, json
sys.path.insert(0, '/verif/lib'); sys.path.insert(0, '/verif/mirsmt')
import xv, e2run
os.environ['XCP_VERIF_DEBUG']='1'
class S: pass
scr = S(); scr.root='/var/tmp/mirdev'; scr.src='/repo'
os.makedirs(scr.root, exist_ok=True)
mod, func = sys.argv[1], sys.argv[2]
r = e2run.run(scr, {"name": func, "module": mod, "func": func}, 0, sys.argv[3] if len(sys.argv)>3 else 'quick')
for l in r.pop('lemmas'): print(('OK  ' if l['ok'] else 'BAD ')+l['name'], l.get('cvc5'), l.get('key') or '', '' if l['ok'] else (str(l.get('counterexample'))[:300]+' '+str(l.get('info',''))[:300]))
print(json.dumps(r, indent=1, default=str)[:1500])
