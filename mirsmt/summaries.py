"""Callee summaries shared by all E2 lemmas (DESIGN.md §2.2).

A summary maps (engine, state, callee text, argument values, destination type) to one
or more Outcomes.  Summaries of *environment* calls (libfs, std::fs, channels, ...)
are installed per lemma group, because their contract is part of the claim.
"""
import re

import z3

from sym import (AggV, BoolV, Cell, EngineAbort, Event, IntV, MovedV, OpaqueV, Outcome, RefV, StrV, UnitV, FnV)


def deref_ref(eng, st, r):
    if isinstance(r, RefV):
        return eng.read(st, r.cell, r.path, None)
    return r


def variants(eng, st, v, ty_hint=None):
    """enum value -> [(cond or None, AggV)] with one concrete-variant value per feasible variant"""
    if isinstance(v, AggV) and v.variant is not None:
        return [(None, v)]
    if isinstance(v, OpaqueV):
        names = eng.enum_of(v.ty if v.ty not in ("?", "const") else (ty_hint or v.ty))
        if not names:
            raise EngineAbort("variants of non-enum %r" % (v,))
        d = eng.discriminant(st, v)
        out = []
        for i, n in enumerate(names):
            fields = _LazyFields(eng, v, n)
            out.append((d.t == i, AggV(v.ty, i, fields.materialise(st), n)))
        return out
    raise EngineAbort("variants of %r" % (v,))


class _LazyFields:
    def __init__(self, eng, o, vname):
        self.eng, self.o, self.vname = eng, o, vname

    def materialise(self, st):
        # payload types are unknown here: one opaque payload cell per variant
        key = ("f", self.vname, 0)
        if key not in self.o.attrs:
            inner = _payload_type(self.o.ty, self.vname)
            if inner is None:
                return []
            self.o.attrs[key] = self.eng.fresh(st, inner, "%s_%s" % (self.o.name, self.vname))
        return [self.o.attrs[key]]


def _payload_type(ty, vname):
    from mir import split_top
    m = re.match(r"^(?:[\w:]*::)?(Result|Option|ControlFlow)<(.*)>$", ty.strip(), re.S)
    if not m:
        return None
    parts = split_top(m.group(2))
    if m.group(1) == "Result":
        return parts[0] if vname == "Ok" else (parts[1] if len(parts) > 1 else "?")
    if m.group(1) == "Option":
        return parts[0] if vname == "Some" else None
    return parts[1] if vname == "Continue" and len(parts) > 1 else parts[0]


def install_common(eng):
    S = eng.add_summary

    def s_deref(eng, st, callee, args, dty):
        r = args[0]
        if re.match(r"^<(std::path::)?(PathBuf|String|OsString|std::ffi::OsString|Vec<.*>|Cow<.*>) as Deref", callee):
            return Outcome(r)   # owned buffer -> borrowed view: same abstract value
        v = deref_ref(eng, st, r)
        if isinstance(v, OpaqueV):
            inner = v.attrs.get("inner")
            if inner is None:
                m = re.match(r"^<(?:std::sync::)?(?:Arc|Box|Rc)<(.*)> as Deref", callee)
                it = m.group(1) if m else ("*" + v.ty)
                inner = v.attrs["inner"] = Cell(OpaqueV(it, v.name + "_in"))
            return Outcome(RefV(inner))
        if isinstance(v, (AggV, StrV)):
            return Outcome(r)   # PathBuf -> Path, String -> str: same abstract value
        raise EngineAbort("deref summary on %r" % (v,))
    S(r"^<.* as Deref(Mut)?>::deref(_mut)?$", s_deref)
    S(r"^<.* as AsRef<.*>>::as_ref$", lambda e, st, c, a, d: Outcome(a[0]))
    S(r"^<.* as Borrow<.*>>::borrow$", lambda e, st, c, a, d: Outcome(a[0]))

    def s_branch(eng, st, callee, args, dty):
        outs = []
        m = re.match(r"^<(.*) as Try>::branch$", callee, re.S)
        ety = m.group(1) if m else None
        for cond, v in variants(eng, st, args[0], ety):
            if v.vname in ("Ok", "Some"):
                r = AggV("ControlFlow", 0, [v.fields[0] if v.fields else UnitV()], "Continue")
            elif v.vname == "Err":
                r = AggV("ControlFlow", 1, [AggV("Result", 1, [v.fields[0]], "Err")], "Break")
            else:
                r = AggV("ControlFlow", 1, [AggV("Option", 0, [], "None")], "Break")
            outs.append(Outcome(r, [cond] if cond is not None else []))
        return outs
    S(r"^<.* as Try>::branch$", s_branch)

    def s_from_residual(eng, st, callee, args, dty):
        v = args[0]
        if isinstance(v, AggV) and v.vname == "Err":
            return Outcome(AggV("Result", 1, [v.fields[0]], "Err"))
        if isinstance(v, AggV) and v.vname == "None":
            return Outcome(AggV("Option", 0, [], "None"))
        if isinstance(v, OpaqueV) and "Option" in callee.split(" as ")[0]:
            return Outcome(AggV("Option", 0, [], "None"))
        raise EngineAbort("from_residual of %r" % (v,))
    S(r" as FromResidual<.*>>::from_residual$", s_from_residual)

    # error conversions keep the payload (identity up to the error type)
    S(r"^<(XcpError|errors::XcpError|libfs::Error|errors::Error|std::io::Error|.*Errno|.*Error) as Into<.*>>::into$",
      lambda e, st, c, a, d: Outcome(a[0]))
    S(r"^<anyhow::Error as From<.*>>::from$", lambda e, st, c, a, d: Outcome(a[0]))
    S(r"^<(libfs::Error|errors::Error) as From<.*>>::from$", lambda e, st, c, a, d: Outcome(a[0]))

    def s_min(eng, st, callee, args, dty):
        a, b = args
        return Outcome(IntV(z3.If(b.t < a.t, b.t, a.t), a.ty))
    S(r"^(std|core)::cmp::min::<\w+>$", s_min)
    S(r"^(std|core)::cmp::max::<\w+>$", lambda e, st, c, a, d: Outcome(IntV(z3.If(a[1].t >= a[0].t, a[1].t, a[0].t), a[0].ty)))

    # calling a closure value: inline the closure body found in the MIR dump
    def s_closure_call(eng, st, callee, args, dty):
        m = re.match(r"^<(\{closure@[^}]*\}) as Fn(Mut|Once)?<.*>>::call(_mut|_once)?$", callee)
        ctext = m.group(1)
        for name, fn in eng.funcs.items():
            if "{closure#" in name and fn.args and ctext in fn.args[0][1]:
                a = list(args)
                extra = a[1].fields if len(a) > 1 and isinstance(a[1], AggV) else []
                first = a[0]
                if not fn.args[0][1].startswith("&") and isinstance(first, RefV):
                    first = eng.read(st, first.cell, first.path, None)
                return ("inline", fn, [first] + list(extra))
        raise EngineAbort("closure body for %s not found" % ctext)
    S(r"^<\{closure@[^}]*\} as Fn(Mut|Once)?<.*>>::call(_mut|_once)?$", s_closure_call)

    # Range<uN>
    S(r"^<(std::ops::)?Range<\w+> as IntoIterator>::into_iter$", lambda e, st, c, a, d: Outcome(a[0]))

    def s_range_next(eng, st, callee, args, dty):
        rng = deref_ref(eng, st, args[0])
        start, end = rng.fields

        def adv(eng, s2, a2):
            r2 = deref_ref(eng, s2, a2[0])
            r2.fields[0] = IntV(r2.fields[0].t + 1, r2.fields[0].ty)
        return [Outcome(AggV("Option", 0, [], "None"), [start.t >= end.t]),
                Outcome(AggV("Option", 1, [start], "Some"), [start.t < end.t], effect=adv)]
    S(r"^<(std::ops::)?Range<\w+> as Iterator>::next$", s_range_next)

    # Arc
    def s_arc_new(eng, st, callee, args, dty):
        return Outcome(OpaqueV(dty if dty != "?" else "Arc<?>", None, {"inner": Cell(args[0]), "rc": Cell(1)}))
    S(r"^(std::sync::)?Arc::<.*>::new$", s_arc_new)

    def s_arc_clone(eng, st, callee, args, dty):
        a = deref_ref(eng, st, args[0])
        if not isinstance(a, OpaqueV):
            raise EngineAbort("Arc::clone of %r" % (a,))
        if "rc" not in a.attrs:
            a.attrs["rc"] = Cell(1)
        if "inner" not in a.attrs:
            m = re.match(r"^<Arc<(.*)> as Clone>::clone$", callee)
            a.attrs["inner"] = Cell(OpaqueV(m.group(1) if m else "*" + a.ty, a.name + "_in"))
        a.attrs["rc"].v += 1
        return Outcome(OpaqueV(a.ty, a.name + "'", {"inner": a.attrs["inner"], "rc": a.attrs["rc"]}))
    S(r"^<Arc<.*> as Clone>::clone$", s_arc_clone)

    # plain Clone / Copy-like clones of scalars and simple enums
    def s_clone(eng, st, callee, args, dty):
        v = deref_ref(eng, st, args[0])
        return Outcome(v)
    S(r"^<(Reflink|Backup|Drivers|config::\w+|bool|u64|usize|PathBuf|std::path::PathBuf|String) as Clone>::clone$", s_clone)

    # formatting / strings: opaque, no effect
    S(r"^(std::fmt::format|alloc::fmt::format|core::fmt::rt::|Arguments::<'_>::|std::fmt::Arguments|format_args|<.* as ToString>::to_string|std::string::ToString|core::fmt::|Formatter::)",
      lambda e, st, c, a, d: Outcome(OpaqueV(d if d != "?" else "fmt", None)))
    S(r"^<.* as ToString>::to_string$", lambda e, st, c, a, d: Outcome(OpaqueV("String", None)))
    S(r"^(std::thread::)?current$", lambda e, st, c, a, d: Outcome(OpaqueV("Thread", None)))
    S(r"^Thread::id$", lambda e, st, c, a, d: Outcome(OpaqueV("ThreadId", None)))
    S(r"^(std::)?panicking::begin_panic|^core::panicking::|^std::rt::begin_panic|^std::rt::panic_fmt|^panic_fmt",
      lambda e, st, c, a, d: Outcome(diverge="panic!() reached: " + c))


