"""Callee summaries shared by all E2 lemmas (DESIGN.md §2.2).

A summary maps (engine, state, callee text, argument values, destination type) to one
or more Outcomes.  Summaries of *environment* calls (libfs, std::fs, channels, ...)
are installed per lemma group, because their contract is part of the claim.
"""
import re

import z3

from sym import (AggV, BoolV, Cell, EngineAbort, Event, IntV, ItemCell, MovedV, OpaqueV, Outcome, RefV, StrV, UnitV, FnV)


def deref_ref(eng, st, r):
    if isinstance(r, RefV):
        return eng.read(st, r.cell, r.path, None)
    return r


def variants(eng, st, v, ty_hint=None):
    """enum value -> [(cond or None, AggV)] with one concrete-variant value per feasible variant"""
    if isinstance(v, AggV) and v.variant is not None:
        return [(None, v)]
    if isinstance(v, OpaqueV):
        names = eng.enum_of(v.ty if v.ty not in ("?", "const") else (ty_hint or v.ty))
        if not names:
            raise EngineAbort("variants of non-enum %r" % (v,))
        d = eng.discriminant(st, v)
        out = []
        for i, n in enumerate(names):
            fields = _LazyFields(eng, v, n)
            out.append((d.t == i, AggV(v.ty, i, fields.materialise(st), n)))
        return out
    raise EngineAbort("variants of %r" % (v,))


class _LazyFields:
    def __init__(self, eng, o, vname):
        self.eng, self.o, self.vname = eng, o, vname

    def materialise(self, st):
        # payload types are unknown here: one opaque payload cell per variant
        key = ("f", self.vname, 0)
        if key not in self.o.attrs:
            inner = _payload_type(self.o.ty, self.vname)
            if inner is None:
                return []
            self.o.attrs[key] = self.eng.fresh(st, inner, "%s_%s" % (self.o.name, self.vname))
        return [self.o.attrs[key]]


def _payload_type(ty, vname):
    from mir import split_top
    m = re.match(r"^(?:[\w:]*::)?(Result|Option|ControlFlow)<(.*)>$", ty.strip(), re.S)
    if not m:
        return None
    parts = split_top(m.group(2))
    if m.group(1) == "Result":
        return parts[0] if vname == "Ok" else (parts[1] if len(parts) > 1 else "?")
    if m.group(1) == "Option":
        return parts[0] if vname == "Some" else None
    return parts[1] if vname == "Continue" and len(parts) > 1 else parts[0]


def install_common(eng):
    S = eng.add_summary
    install_std_extras_later = True

    def s_deref(eng, st, callee, args, dty):
        r = args[0]
        if re.match(r"^<(std::path::)?(PathBuf|String|OsString|std::ffi::OsString|Vec<.*>|Cow<.*>) as Deref", callee):
            return Outcome(r)   # owned buffer -> borrowed view: same abstract value
        v = deref_ref(eng, st, r)
        if isinstance(v, OpaqueV):
            inner = v.attrs.get("inner")
            if inner is None:
                m = re.match(r"^<(?:std::sync::)?(?:Arc|Box|Rc)<(.*)> as Deref", callee)
                it = m.group(1) if m else ("*" + v.ty)
                inner = v.attrs["inner"] = Cell(OpaqueV(it, v.name + "_in"))
            return Outcome(RefV(inner))
        if isinstance(v, (AggV, StrV)):
            return Outcome(r)   # PathBuf -> Path, String -> str: same abstract value
        raise EngineAbort("deref summary on %r" % (v,))
    S(r"^<.* as Deref(Mut)?>::deref(_mut)?$", s_deref)
    S(r"^<.* as AsRef<.*>>::as_ref$", lambda e, st, c, a, d: Outcome(a[0]))
    S(r"^<.* as Borrow<.*>>::borrow$", lambda e, st, c, a, d: Outcome(a[0]))

    def s_branch(eng, st, callee, args, dty):
        outs = []
        m = re.match(r"^<(.*) as Try>::branch$", callee, re.S)
        ety = m.group(1) if m else None
        for cond, v in variants(eng, st, args[0], ety):
            if v.vname in ("Ok", "Some"):
                r = AggV("ControlFlow", 0, [v.fields[0] if v.fields else UnitV()], "Continue")
            elif v.vname == "Err":
                r = AggV("ControlFlow", 1, [AggV("Result", 1, [v.fields[0]], "Err")], "Break")
            else:
                r = AggV("ControlFlow", 1, [AggV("Option", 0, [], "None")], "Break")
            outs.append(Outcome(r, [cond] if cond is not None else []))
        return outs
    S(r"^<.* as Try>::branch$", s_branch)

    def s_from_residual(eng, st, callee, args, dty):
        v = args[0]
        if isinstance(v, AggV) and v.vname == "Err":
            return Outcome(AggV("Result", 1, [v.fields[0]], "Err"))
        if isinstance(v, AggV) and v.vname == "None":
            return Outcome(AggV("Option", 0, [], "None"))
        if isinstance(v, OpaqueV) and "Option" in callee.split(" as ")[0]:
            return Outcome(AggV("Option", 0, [], "None"))
        raise EngineAbort("from_residual of %r" % (v,))
    S(r" as FromResidual<.*>>::from_residual$", s_from_residual)

    # error conversions keep the payload (identity up to the error type)
    S(r"^<(XcpError|errors::XcpError|libfs::Error|errors::Error|std::io::Error|.*Errno|.*Error) as Into<.*>>::into$",
      lambda e, st, c, a, d: Outcome(a[0]))
    S(r"^<anyhow::Error as From<.*>>::from$", lambda e, st, c, a, d: Outcome(a[0]))
    S(r"^<(libfs::Error|errors::Error) as From<.*>>::from$", lambda e, st, c, a, d: Outcome(a[0]))

    def s_min(eng, st, callee, args, dty):
        a, b = args
        return Outcome(IntV(z3.If(b.t < a.t, b.t, a.t), a.ty))
    S(r"^(std|core)::cmp::min::<\w+>$", s_min)
    S(r"^(std|core)::cmp::max::<\w+>$", lambda e, st, c, a, d: Outcome(IntV(z3.If(a[1].t >= a[0].t, a[1].t, a[0].t), a[0].ty)))

    # calling a closure value: inline the closure body found in the MIR dump
    def s_closure_call(eng, st, callee, args, dty):
        m = re.match(r"^<(\{closure@[^}]*\}) as Fn(Mut|Once)?<.*>>::call(_mut|_once)?$", callee)
        ctext = m.group(1)
        for name, fn in eng.funcs.items():
            if "{closure#" in name and fn.args and ctext in fn.args[0][1]:
                a = list(args)
                extra = a[1].fields if len(a) > 1 and isinstance(a[1], AggV) else []
                first = a[0]
                if not fn.args[0][1].startswith("&") and isinstance(first, RefV):
                    first = eng.read(st, first.cell, first.path, None)
                return ("inline", fn, [first] + list(extra))
        raise EngineAbort("closure body for %s not found" % ctext)
    S(r"^<\{closure@[^}]*\} as Fn(Mut|Once)?<.*>>::call(_mut|_once)?$", s_closure_call)

    # Range<uN>
    S(r"^<(std::ops::)?Range<\w+> as IntoIterator>::into_iter$", lambda e, st, c, a, d: Outcome(a[0]))

    def s_range_next(eng, st, callee, args, dty):
        rng = deref_ref(eng, st, args[0])
        start, end = rng.fields

        def adv(eng, s2, a2):
            r2 = deref_ref(eng, s2, a2[0])
            r2.fields[0] = IntV(r2.fields[0].t + 1, r2.fields[0].ty)
        return [Outcome(AggV("Option", 0, [], "None"), [start.t >= end.t]),
                Outcome(AggV("Option", 1, [start], "Some"), [start.t < end.t], effect=adv)]
    S(r"^<(std::ops::)?Range<\w+> as Iterator>::next$", s_range_next)

    # Arc
    def s_arc_new(eng, st, callee, args, dty):
        return Outcome(OpaqueV(dty if dty != "?" else "Arc<?>", None, {"inner": Cell(args[0]), "rc": Cell(1)}))
    S(r"^(std::sync::)?Arc::<.*>::new$", s_arc_new)

    def s_arc_clone(eng, st, callee, args, dty):
        a = deref_ref(eng, st, args[0])
        if not isinstance(a, OpaqueV):
            raise EngineAbort("Arc::clone of %r" % (a,))
        if "rc" not in a.attrs:
            a.attrs["rc"] = Cell(1)
        if "inner" not in a.attrs:
            m = re.match(r"^<Arc<(.*)> as Clone>::clone$", callee)
            a.attrs["inner"] = Cell(OpaqueV(m.group(1) if m else "*" + a.ty, a.name + "_in"))
        a.attrs["rc"].v += 1
        return Outcome(OpaqueV(a.ty, a.name + "'", {"inner": a.attrs["inner"], "rc": a.attrs["rc"]}))
    S(r"^<Arc<.*> as Clone>::clone$", s_arc_clone)

    # plain Clone / Copy-like clones of scalars and simple enums
    def s_clone(eng, st, callee, args, dty):
        v = deref_ref(eng, st, args[0])
        return Outcome(v)
    S(r"^<(Reflink|Backup|Drivers|config::\w+|bool|u64|usize|PathBuf|std::path::PathBuf|String) as Clone>::clone$", s_clone)

    # formatting / strings: opaque, no effect
    S(r"^(std::fmt::format|alloc::fmt::format|core::fmt::rt::|Arguments::<'_>::|std::fmt::Arguments|format_args|<.* as ToString>::to_string|std::string::ToString|core::fmt::|Formatter::)",
      lambda e, st, c, a, d: Outcome(OpaqueV(d if d != "?" else "fmt", None)))
    S(r"^<.* as ToString>::to_string$", lambda e, st, c, a, d: Outcome(OpaqueV("String", None)))
    S(r"^(std::thread::)?current$", lambda e, st, c, a, d: Outcome(OpaqueV("Thread", None)))
    S(r"^Thread::id$", lambda e, st, c, a, d: Outcome(OpaqueV("ThreadId", None)))
    S(r"^(std::)?panicking::begin_panic|^core::panicking::|^std::rt::begin_panic|^std::rt::panic_fmt|^panic_fmt",
      lambda e, st, c, a, d: Outcome(diverge="panic!() reached: " + c))
    install_std_extras(eng)
    install_iter_extras(eng)
    install_more_extras(eng)




# ----------------------------------------------------------------------------- std extras
# Plausible edits of the code reach for these std helpers; deciding them (instead of aborting on an
# unknown callee) keeps the checks conclusive on such edits.

def find_closure_fn(eng, callee, clo=None):
    # the closure value knows its own type; the callee text may mention several closures (adapter chains)
    text = clo.ty if isinstance(clo, AggV) and clo.ty.startswith("{closure@") else None
    if text is None:
        ms = re.findall(r"(\{closure@[^}]*\})", callee)
        text = ms[-1] if ms else None
    if text is None:
        # a plain function passed where a closure is expected: `opt.and_then(half)`
        m = re.search(r"(?:fn|for<[^>]*> fn)\([^{}]*\{([\w:<>]+)\}", callee)
        fnv = clo if isinstance(clo, FnV) else None
        cand = getattr(fnv, "name", None) or (m.group(1) if m else None)
        if cand:
            f = eng.find_fn(cand) or next((fn for name, fn in eng.funcs.items() if hasattr(fn, "blocks") and name.split("::")[-1] == cand.split("::")[-1]), None)
            if f is not None:
                return f
        raise EngineAbort("no closure type in %r" % callee)
    for name, fn in eng.funcs.items():
        if "{closure#" in name and fn.args and text in fn.args[0][1]:
            return fn
    raise EngineAbort("closure body for %s not found" % text)


def _clo_arg(fn, clo):
    """closures taken by reference in their body signature get a reference"""
    return RefV(Cell(clo)) if fn.args[0][1].startswith("&") else clo


def call_closure(eng, st, callee, clo, args, wrap):
    """run closure `clo(args...)` synchronously and map its result with `wrap(state, value)`"""
    fn = find_closure_fn(eng, callee, clo)
    outs = []
    is_closure = "{closure" in fn.name
    for s2, r in eng.call_sync(st, fn, ([_clo_arg(fn, clo)] if is_closure else []) + list(args)):
        if s2.status != "running":
            outs.append((s2, None, []))
        else:
            outs.append((s2, wrap(s2, r), []))
    return ("states", outs)


def item_ref(eng, st, container, k):
    """reference to the k-th element that writes through to the container"""
    o = deref_ref(eng, st, container)
    if not ((isinstance(o, OpaqueV) and "items" in o.attrs) or (isinstance(o, AggV) and o.ty == "array")):
        raise EngineAbort("not a list-like value: %r" % (o,))
    return RefV(ItemCell(o, k))


def items_of(eng, st, v):
    v = deref_ref(eng, st, v)
    if isinstance(v, OpaqueV) and "items" in v.attrs:
        return v.attrs["items"]
    if isinstance(v, AggV) and v.ty in ("array",):
        return v.fields
    raise EngineAbort("not a list-like value: %r" % (v,))


def install_std_extras(eng):
    S = lambda rx, h: eng.add_summary(rx, h, fallback=True)
    some = lambda v: AggV("Option", 1, [v], "Some")
    none = lambda: AggV("Option", 0, [], "None")

    def per_variant(fn_):
        """summary body applied to each feasible variant of the enum argument"""
        def h(eng, st, callee, args, dty):
            m = re.match(r"^((?:std::|core::)?(?:option::|result::)?(?:Option|Result))::<(.*)>::\w+", callee, re.S)
            ety = ("%s<%s>" % (m.group(1).split("::")[-1], m.group(2))) if m else None
            recv = args[0] if not isinstance(args[0], RefV) else deref_ref(eng, st, args[0])
            outs = []
            for cond, v in variants(eng, st, recv, ety):
                r = fn_(eng, st, callee, v, args)
                if isinstance(r, tuple):
                    if cond is not None:
                        raise EngineAbort("closure-taking combinator on a symbolic enum")
                    return r
                r.conds = ([cond] if cond is not None else []) + r.conds
                outs.append(r)
            return outs
        return h
    # derived PartialEq of a field-less enum (e.g. `opts.backup == Backup::None` with the enum defined in another crate): discriminants
    def s_enum_eq(eng, st, callee, args, dty):
        a, b = deref_ref(eng, st, args[0]), deref_ref(eng, st, args[1])
        while isinstance(a, RefV):
            a = deref_ref(eng, st, a)
        while isinstance(b, RefV):
            b = deref_ref(eng, st, b)
        for v in (a, b):
            if isinstance(v, AggV) and v.fields:
                raise EngineAbort("PartialEq on an enum value with fields: %s" % callee)
            if isinstance(v, OpaqueV) and not eng.enum_of(v.ty):
                raise EngineAbort("PartialEq on a non-enum value: %s" % callee)
        eq = eng.discriminant(st, a).t == eng.discriminant(st, b).t
        return Outcome(BoolV(eq if callee.endswith("eq") else z3.Not(eq)))
    S(r"^<(?!ErrorKind)\w+ as PartialEq>::(eq|ne)$", s_enum_eq)
    S(r"^Option::<.*>::is_some$", per_variant(lambda e, st, c, v, a: Outcome(BoolV(v.vname == "Some"))))
    S(r"^Option::<.*>::is_none$", per_variant(lambda e, st, c, v, a: Outcome(BoolV(v.vname == "None"))))
    S(r"^Result::<.*>::is_ok$", per_variant(lambda e, st, c, v, a: Outcome(BoolV(v.vname == "Ok"))))
    S(r"^Result::<.*>::is_err$", per_variant(lambda e, st, c, v, a: Outcome(BoolV(v.vname == "Err"))))
    S(r"^Result::<.*>::is_ok_and::<", per_variant(lambda e, st, c, v, a: Outcome(BoolV(False)) if v.vname == "Err" else call_closure(e, st, c, a[1], [v.fields[0]], lambda s2, r: r)))
    S(r"^Result::<.*>::is_err_and::<", per_variant(lambda e, st, c, v, a: Outcome(BoolV(False)) if v.vname == "Ok" else call_closure(e, st, c, a[1], [v.fields[0]], lambda s2, r: r)))
    S(r"^Result::<.*>::ok$", per_variant(lambda e, st, c, v, a: Outcome(some(v.fields[0]) if v.vname == "Ok" else none())))
    S(r"^Result::<.*>::err$", per_variant(lambda e, st, c, v, a: Outcome(some(v.fields[0]) if v.vname == "Err" else none())))
    S(r"^Option::<.*>::unwrap_or$", per_variant(lambda e, st, c, v, a: Outcome(v.fields[0] if v.vname == "Some" else a[1])))
    S(r"^Result::<.*>::unwrap_or$", per_variant(lambda e, st, c, v, a: Outcome(v.fields[0] if v.vname == "Ok" else a[1])))
    S(r"^Option::<.*>::(unwrap|expect)$", per_variant(lambda e, st, c, v, a: Outcome(v.fields[0]) if v.vname == "Some" else Outcome(diverge="unwrap on None")))
    S(r"^Result::<.*>::(unwrap|expect)$", per_variant(lambda e, st, c, v, a: Outcome(v.fields[0]) if v.vname == "Ok" else Outcome(diverge="unwrap on Err")))
    S(r"^Option::<.*>::(copied|cloned)$", per_variant(lambda e, st, c, v, a: Outcome(some(deref_ref(e, st, v.fields[0])) if v.vname == "Some" else none())))
    S(r"^Option::<.*>::ok_or::<", per_variant(lambda e, st, c, v, a: Outcome(AggV("Result", 0, [v.fields[0]], "Ok") if v.vname == "Some" else AggV("Result", 1, [a[1]], "Err"))))
    S(r"^Option::<.*>::is_some_and::<", per_variant(lambda e, st, c, v, a: Outcome(BoolV(False)) if v.vname == "None" else call_closure(e, st, c, a[1], [v.fields[0]], lambda s2, r: r)))
    S(r"^Option::<.*>::is_none_or::<", per_variant(lambda e, st, c, v, a: Outcome(BoolV(True)) if v.vname == "None" else call_closure(e, st, c, a[1], [v.fields[0]], lambda s2, r: r)))
    S(r"^Option::<.*>::map::<", per_variant(lambda e, st, c, v, a: Outcome(none()) if v.vname == "None" else call_closure(e, st, c, a[1], [v.fields[0]], lambda s2, r: some(r))))
    S(r"^Option::<.*>::and_then::<", per_variant(lambda e, st, c, v, a: Outcome(none()) if v.vname == "None" else call_closure(e, st, c, a[1], [v.fields[0]], lambda s2, r: r)))
    S(r"^Option::<.*>::unwrap_or_else::<", per_variant(lambda e, st, c, v, a: Outcome(v.fields[0]) if v.vname == "Some" else call_closure(e, st, c, a[1], [], lambda s2, r: r)))
    S(r"^Option::<.*>::ok_or_else::<", per_variant(lambda e, st, c, v, a: Outcome(AggV("Result", 0, [v.fields[0]], "Ok")) if v.vname == "Some" else call_closure(e, st, c, a[1], [], lambda s2, r: AggV("Result", 1, [r], "Err"))))
    S(r"^Result::<.*>::map::<", per_variant(lambda e, st, c, v, a: Outcome(v) if v.vname == "Err" else call_closure(e, st, c, a[1], [v.fields[0]], lambda s2, r: AggV("Result", 0, [r], "Ok"))))
    S(r"^Result::<.*>::map_err::<", per_variant(lambda e, st, c, v, a: Outcome(v) if v.vname == "Ok" else call_closure(e, st, c, a[1], [v.fields[0]], lambda s2, r: AggV("Result", 1, [r], "Err"))))
    S(r"^Result::<.*>::and_then::<", per_variant(lambda e, st, c, v, a: Outcome(v) if v.vname == "Err" else call_closure(e, st, c, a[1], [v.fields[0]], lambda s2, r: r)))
    S(r"^Result::<.*>::or_else::<", per_variant(lambda e, st, c, v, a: Outcome(v) if v.vname == "Ok" else call_closure(e, st, c, a[1], [v.fields[0]], lambda s2, r: r)))
    S(r"^Result::<.*>::unwrap_or_else::<", per_variant(lambda e, st, c, v, a: Outcome(v.fields[0]) if v.vname == "Ok" else call_closure(e, st, c, a[1], [v.fields[0]], lambda s2, r: r)))

    def s_take(eng, st, callee, args, dty):
        r = args[0]
        v = deref_ref(eng, st, r)
        if isinstance(r, RefV):
            eng.write(st, r.cell, r.path, AggV(v.ty if isinstance(v, AggV) else "Option", 0, [], "None"))
        return Outcome(v)
    S(r"^Option::<.*>::take$", s_take)

    def s_replace(eng, st, callee, args, dty):
        r = args[0]
        v = deref_ref(eng, st, r)
        eng.write(st, r.cell, r.path, AggV("Option", 1, [args[1]], "Some"))
        return Outcome(v)
    S(r"^Option::<.*>::replace$", s_replace)
    S(r"^Option::<.*>::(as_ref|as_mut|as_deref)$", per_variant(lambda e, st, c, v, a: Outcome(some(v.fields[0]) if v.vname == "Some" else none())))

    # list-like values (Vec / slice with a concrete length per path)
    S(r"^<Vec<.*> as Deref(Mut)?>::deref(_mut)?$|^Vec::<.*>::as_(mut_)?slice$", lambda e, st, c, a, d: Outcome(a[0]))
    S(r"^(Vec::<.*>|core::slice::<impl \[.*\]>)::len$", lambda e, st, c, a, d: Outcome(IntV(len(items_of(e, st, a[0])), "usize")))
    S(r"^(Vec::<.*>|core::slice::<impl \[.*\]>)::is_empty$", lambda e, st, c, a, d: Outcome(BoolV(len(items_of(e, st, a[0])) == 0)))

    def s_last(first):
        def h(eng, st, callee, args, dty):
            it = items_of(eng, st, args[0])
            if not it:
                return Outcome(none())
            return Outcome(some(item_ref(eng, st, args[0], 0 if first else len(it) - 1)))
        return h
    S(r"^(Vec::<.*>|core::slice::<impl \[.*\]>)::last(_mut)?$", s_last(False))
    S(r"^(Vec::<.*>|core::slice::<impl \[.*\]>)::first(_mut)?$", s_last(True))

    def s_pop(eng, st, callee, args, dty):
        it = items_of(eng, st, args[0])
        return Outcome(some(it.pop()) if it else none())
    S(r"^Vec::<.*>::pop$", s_pop)

    # integer helpers
    def int2(f):
        return lambda e, st, c, a, d: f(e, st, a[0], a[1])
    from sym import int_range

    def checked(op):
        def h(eng, st, callee, args, dty):
            a, b = args
            r = {"add": a.t + b.t, "sub": a.t - b.t, "mul": a.t * b.t}[op]
            lo, hi = int_range(a.ty)
            inr = z3.And(r >= lo, r <= hi)
            return [Outcome(some(IntV(r, a.ty)), [inr]), Outcome(none(), [z3.Not(inr)])]
        return h
    for op in ("add", "sub", "mul"):
        S(r"^(core::num::<impl \w+>|\w+)::checked_%s$" % op, checked(op))

    def saturating(op):
        def h(eng, st, callee, args, dty):
            a, b = args
            r = a.t + b.t if op == "add" else a.t - b.t
            lo, hi = int_range(a.ty)
            return Outcome(IntV(z3.If(r > hi, hi, z3.If(r < lo, lo, r)), a.ty))
        return h
    S(r"^(core::num::<impl \w+>|\w+)::saturating_add$", saturating("add"))
    S(r"^(core::num::<impl \w+>|\w+)::saturating_sub$", saturating("sub"))
    S(r"^(core::num::<impl \w+>|\w+)::wrapping_add$", lambda e, st, c, a, d: Outcome(IntV(e.wrap(a[0].t + a[1].t, a[0].ty), a[0].ty)))
    S(r"^(core::num::<impl \w+>|\w+)::wrapping_sub$", lambda e, st, c, a, d: Outcome(IntV(e.wrap(a[0].t - a[1].t, a[0].ty), a[0].ty)))
    S(r"^<\w+ as Ord>::min$|^(std|core)::cmp::Ord::min$", lambda e, st, c, a, d: Outcome(IntV(z3.If(a[1].t < a[0].t, a[1].t, a[0].t), a[0].ty)))
    S(r"^<\w+ as Ord>::max$|^(std|core)::cmp::Ord::max$", lambda e, st, c, a, d: Outcome(IntV(z3.If(a[1].t >= a[0].t, a[1].t, a[0].t), a[0].ty)))
    S(r"^(core::num::<impl \w+>|\w+)::div_ceil$", lambda e, st, c, a, d: [
        Outcome(IntV(z3.If(a[0].t % a[1].t > 0, a[0].t / a[1].t + 1, a[0].t / a[1].t), a[0].ty), [a[1].t != 0]),
        Outcome(diverge="attempt to divide by zero", conds=[a[1].t == 0])])
    S(r"^(core::num::<impl \w+>|\w+)::abs_diff$", lambda e, st, c, a, d: Outcome(IntV(z3.If(a[0].t >= a[1].t, a[0].t - a[1].t, a[1].t - a[0].t), a[0].ty)))
    S(r"^<(u8|u16|u32|u64|usize|i32|i64) as (From|Into)<.*>>::(from|into)$|^<(u8|u16|u32|u64|usize) as TryFrom<.*>>::try_from$",
      lambda e, st, c, a, d: Outcome(a[0] if "Try" not in c else AggV("Result", 0, [a[0]], "Ok")))

    # `&T == &T` compares the referents (derived PartialEq on enums with payloads goes through this)
    def s_ref_eq(eng, st, callee, args, dty):
        a, b = deref_ref(eng, st, args[0]), deref_ref(eng, st, args[1])
        a, b = deref_ref(eng, st, a), deref_ref(eng, st, b)
        neg = callee.endswith("::ne")
        if isinstance(a, (IntV, BoolV)) and isinstance(b, (IntV, BoolV)):
            t = a.t == b.t
            return Outcome(BoolV(z3.Not(t) if neg else t))
        raise EngineAbort("reference comparison of %r" % (a,))
    S(r"^<&(mut )?(u8|u16|u32|u64|usize|i8|i16|i32|i64|isize|bool) as PartialEq(<&.*>)?>::(eq|ne)$", s_ref_eq)

    # vec![a, b, c] (array literal moved into a fresh box, then into a Vec)
    def s_new_uninit(eng, st, callee, args, dty):
        slot = AggV("MaybeDangling", None, [MovedV()])
        mu = AggV("MaybeUninit", None, [UnitV(), AggV("ManuallyDrop", None, [slot])])
        return Outcome(AggV("Box", None, [AggV("Unique", None, [RefV(Cell(mu))])]))
    S(r"^Box::<\[.*\]>::new_uninit$", s_new_uninit)

    def s_box_into_vec(eng, st, callee, args, dty):
        mu = deref_ref(eng, st, args[0].fields[0].fields[0])
        arr = mu.fields[1].fields[0].fields[0]
        if not isinstance(arr, AggV):
            raise EngineAbort("vec! literal: box content was not initialised with an array")
        return Outcome(OpaqueV("Vec", None, {"items": list(arr.fields)}))
    S(r"^std::boxed::box_assume_init_into_vec_unsafe::<", s_box_into_vec)

    # io::Error kinds: a symbolic kind per error value unless the model pinned one; comparisons are deterministic
    def _kind_of(eng, st, v):
        v = deref_ref(eng, st, v)
        if isinstance(v, OpaqueV):
            if "kind" not in v.attrs:
                v.attrs["kind"] = ("sym", "iokind_%d" % next(eng.fresh_ids))
            return v.attrs["kind"]
        if isinstance(v, AggV):
            return v.vname if isinstance(v.vname, str) else v.ty.split("::")[-1]
        return re.sub(r".*::", "", getattr(v, "name", "") or repr(v))
    S(r"^std::io::Error::kind$", lambda e, st, c, a, d: Outcome(OpaqueV("ErrorKind", None, {"kind": _kind_of(e, st, a[0])})))

    def s_kind_eq(eng, st, callee, args, dty):
        a, b = _kind_of(eng, st, args[0]), _kind_of(eng, st, args[1])
        if isinstance(a, tuple) or isinstance(b, tuple):
            if a == b:
                return Outcome(BoolV(True))
            x, y = sorted([a[1] if isinstance(a, tuple) else a, b[1] if isinstance(b, tuple) else b])
            return Outcome(BoolV(z3.Bool("%s_is_%s" % (x, y))))
        return Outcome(BoolV(a == b))
    S(r"^<(std::io::)?ErrorKind as PartialEq>::(eq|ne)$", lambda e, st, c, a, d: s_kind_eq(e, st, c, a, d) if c.endswith("eq") else Outcome(BoolV(z3.Not(s_kind_eq(e, st, c, a, d).ret.t))))
    S(r"^std::io::Error::last_os_error$", lambda e, st, c, a, d: Outcome(OpaqueV("std::io::Error", "os_error_%d" % next(e.fresh_ids))))
    S(r"^std::io::Error::raw_os_error$", lambda e, st, c, a, d: Outcome(some(e.fresh_int(st, "i32", "errno"))))

    # getrlimit(2): soft <= hard, both written through the pointer; 0 or -1
    def s_getrlimit(eng, st, callee, args, dty):
        r = args[1]
        cur = eng.fresh_int(st, "u64", "rlim_cur")
        mx = eng.fresh_int(st, "u64", "rlim_max")
        res = args[0]
        v = deref_ref(eng, st, r)
        if not (isinstance(v, AggV) and len(v.fields) == 2):
            raise EngineAbort("getrlimit: unexpected rlimit value %r" % (v,))
        eng.write(st, r.cell, r.path, AggV(v.ty, v.variant, [cur, mx], v.vname))
        st.ghost["rlimit_soft"] = cur
        st.ghost["rlimit_hard"] = mx
        return [Outcome(IntV(0, "i32"), [cur.t <= mx.t], events=[Event("getrlimit", [res], (cur, mx))]),
                Outcome(IntV(-1, "i32"), events=[Event("getrlimit", [res], "err")])]
    S(r"^(libc::)?getrlimit(64)?$|^rustix::process::getrlimit$", s_getrlimit)


# ----------------------------------------------------------------------------- eager iterators
# Iterators over lists whose length is concrete on the current path (directory listings, Vecs, slices) are
# evaluated eagerly: an adapter applies its closure to every item (forking where the closure forks).

def list_iter(items):
    return OpaqueV("ListIter", None, {"items": list(items), "pos": Cell(0)})


def iter_items(eng, st, v):
    v = deref_ref(eng, st, v)
    if isinstance(v, OpaqueV) and "items" in v.attrs:
        pos = v.attrs.get("pos")
        return v.attrs["items"][pos.v:] if isinstance(pos, Cell) else v.attrs["items"]
    if isinstance(v, OpaqueV) and "entries" in v.attrs:
        return v.attrs["entries"]
    raise EngineAbort("not an eager iterator: %r" % (v,))


def apply_each(eng, st, callee, clo, items, mkargs):
    """[(state, [closure result per item])] -- sequential application with forking"""
    fn = find_closure_fn(eng, callee, clo)
    work = [(st, [])]
    for idx, it in enumerate(items):
        nxt = []
        for s_, acc in work:
            if s_.status != "running":
                nxt.append((s_, acc))
                continue
            s_.ghost["_acc"] = (acc, clo, it)
            acc0, clo_, it_ = s_.ghost["_acc"]
            from sym import _cp
            for s2, r in eng.call_sync(s_, fn, [RefV(Cell(clo_)) if fn.args[0][1].startswith("&") else clo_] + mkargs(_cp(it_, {}))):
                a2 = s2.ghost.pop("_acc", (acc0, None, None))[0]
                if s2.status != "running":
                    nxt.append((s2, a2))
                else:
                    nxt.append((s2, list(a2) + [r]))
        work = nxt
    return work


def install_iter_extras(eng, order_key=None):
    """order_key(engine, state, value) -> z3 Int term or an object with lexicographic compare, for max/min of non-integers"""
    S = lambda rx, h: eng.add_summary(rx, h, fallback=True)
    some = lambda v: AggV("Option", 1, [v], "Some")
    none = lambda: AggV("Option", 0, [], "None")

    def finish(work, build):
        outs = []
        for s2, acc in work:
            if s2.status != "running":
                outs.append((s2, None, []))
            else:
                outs.extend(build(s2, acc))
        return ("states", outs)

    def s_filter_map(eng, st, callee, args, dty):
        items = iter_items(eng, st, args[0])
        work = apply_each(eng, st, callee, args[1], items, lambda it: [it])
        return finish(work, lambda s2, acc: [(s2, list_iter([r.fields[0] for r in acc if r.vname == "Some"]), [])])
    S(r"^<.* as Iterator>::filter_map::<", s_filter_map)

    def s_map(eng, st, callee, args, dty):
        items = iter_items(eng, st, args[0])
        work = apply_each(eng, st, callee, args[1], items, lambda it: [it])
        return finish(work, lambda s2, acc: [(s2, list_iter(acc), [])])
    S(r"^<.* as Iterator>::map::<", s_map)

    def s_filter(eng, st, callee, args, dty):
        items = iter_items(eng, st, args[0])
        work = apply_each(eng, st, callee, args[1], items, lambda it: [RefV(Cell(it))])

        def build(s2, acc):
            # predicates may be symbolic: fork on each undecided one
            outs = [(s2, [], [])]
            for it, b in zip(items, acc):
                t = z3.simplify(b.t)
                nxt = []
                for s3, kept, conds in outs:
                    if z3.is_true(t):
                        nxt.append((s3, kept + [it], conds))
                    elif z3.is_false(t):
                        nxt.append((s3, kept, conds))
                    else:
                        s4 = s3.clone()
                        nxt.append((s3, kept + [it], conds + [b.t]))
                        nxt.append((s4, kept, conds + [z3.Not(b.t)]))
                outs = nxt
            return [(s3, list_iter(kept), conds) for s3, kept, conds in outs]
        return finish(work, build)
    S(r"^<.* as Iterator>::filter::<", s_filter)

    def s_any(allq):
        def h(eng, st, callee, args, dty):
            items = iter_items(eng, st, args[0])
            work = apply_each(eng, st, callee, args[1], items, lambda it: [it])
            f = z3.And if allq else z3.Or
            return finish(work, lambda s2, acc: [(s2, BoolV(f(*[b.t for b in acc]) if acc else z3.BoolVal(allq)), [])])
        return h
    S(r"^<.* as Iterator>::any::<", s_any(False))
    S(r"^<.* as Iterator>::all::<", s_any(True))

    def s_max(want_max):
        def h(eng, st, callee, args, dty):
            items = iter_items(eng, st, args[0])
            if not items:
                return Outcome(none())
            if all(isinstance(x, IntV) for x in items):
                best = items[0].t
                for x in items[1:]:
                    best = z3.If((x.t >= best) if want_max else (x.t < best), x.t, best)
                st.ghost["recognised"] = list(items)
                return Outcome(some(IntV(best, items[0].ty)))
            der = [deref_ref(eng, st, x) if isinstance(x, RefV) else None for x in items]
            if all(isinstance(x, IntV) for x in der):
                # iterating by reference: the answer is a reference to (a copy of) the extreme element
                best = der[0].t
                for x in der[1:]:
                    best = z3.If((x.t >= best) if want_max else (x.t < best), x.t, best)
                return Outcome(some(RefV(Cell(IntV(best, der[0].ty)))))
            order_key = getattr(eng, "order_key", None)
            if order_key is None:
                raise EngineAbort("max/min over non-integer items without an ordering model")
            # select the extreme element by pairwise comparison: fork on which item wins
            outs = []
            for i, cand in enumerate(items):
                conds = []
                for j, other in enumerate(items):
                    if i == j:
                        continue
                    le = order_key(eng, st, other, cand)       # other <= cand
                    lt = z3.Not(order_key(eng, st, cand, other))   # other < cand  (strict)
                    if want_max:
                        conds.append(le if j < i else lt)      # Iterator::max returns the last of equal maxima
                    else:
                        conds.append(order_key(eng, st, cand, other) if j > i else z3.Not(order_key(eng, st, other, cand)))
                outs.append(Outcome(some(cand), conds))
            return outs
        return h
    S(r"^<.* as Iterator>::max$", s_max(True))
    S(r"^<.* as Iterator>::min$", s_max(False))

    # by-reference iteration over list-like values: the items are write-through references
    def s_iter(eng, st, callee, args, dty):
        n = len(items_of(eng, st, args[0]))
        return Outcome(list_iter([item_ref(eng, st, args[0], k) for k in range(n)]))
    S(r"^(Vec::<.*>|core::slice::<impl \[.*\]>)::iter(_mut)?$", s_iter)
    S(r"^<.* as Iterator>::(copied|cloned)::<", lambda e, st, c, a, d: Outcome(list_iter([deref_ref(e, st, x) for x in iter_items(e, st, a[0])])))
    S(r"^<.* as Iterator>::rev$|^<.* as DoubleEndedIterator>::rev$", lambda e, st, c, a, d: Outcome(list_iter(list(reversed(iter_items(e, st, a[0]))))))
    S(r"^<.* as Iterator>::enumerate$", lambda e, st, c, a, d: Outcome(list_iter([AggV("tuple", None, [IntV(k, "usize"), x]) for k, x in enumerate(iter_items(e, st, a[0]))])))

    def s_sum(eng, st, callee, args, dty):
        items = [deref_ref(eng, st, x) if isinstance(x, RefV) else x for x in iter_items(eng, st, args[0])]
        if not all(isinstance(x, IntV) for x in items):
            raise EngineAbort("sum over non-integers")
        from sym import int_range
        m = re.search(r"sum::<(\w+)>", callee)
        ty = m.group(1) if m else (items[0].ty if items else "u64")
        tot = z3.IntVal(0)
        for x in items:
            tot = tot + x.t
        lo, hi = int_range(ty)
        return [Outcome(IntV(tot, ty), [tot <= hi, tot >= lo]), Outcome(diverge="attempt to add with overflow", conds=[z3.Or(tot > hi, tot < lo)])]
    S(r"^<.* as Iterator>::sum::<", s_sum)

    def s_skip_take(eng, st, callee, args, dty):
        n = eng.concrete_int(st, args[1])
        if n is None:
            raise EngineAbort("skip/take with a symbolic count")
        items = iter_items(eng, st, args[0])
        return Outcome(list_iter(items[n:] if "::skip" in callee else items[:n]))
    S(r"^<.* as Iterator>::(skip|take)$", s_skip_take)
    S(r"^<.* as Iterator>::count$", lambda e, st, c, a, d: Outcome(IntV(len(iter_items(e, st, a[0])), "usize")))
    S(r"^<.* as Iterator>::last$", lambda e, st, c, a, d: Outcome(some(iter_items(e, st, a[0])[-1]) if iter_items(e, st, a[0]) else none()))
    S(r"^<.* as Iterator>::collect::<Vec<", lambda e, st, c, a, d: Outcome(OpaqueV("Vec", None, {"items": list(iter_items(e, st, a[0]))})))

    def s_next(eng, st, callee, args, dty):
        it = deref_ref(eng, st, args[0])
        if not (isinstance(it, OpaqueV) and it.ty == "ListIter"):
            raise EngineAbort("next() on %r" % (it,))
        i = it.attrs["pos"].v
        if i < len(it.attrs["items"]):
            it.attrs["pos"].v = i + 1
            return Outcome(some(it.attrs["items"][i]))
        return Outcome(none())
    S(r"^<.* as Iterator>::next$", s_next)
    S(r"^<.* as IntoIterator>::into_iter$", lambda e, st, c, a, d: Outcome(list_iter(iter_items(e, st, a[0])) if not (isinstance(a[0], OpaqueV) and a[0].ty == "ListIter") else a[0]))
    # atomics: sequential cells (the engine explores one thread at a time; cross-thread effects are the lemmas' business)
    def atom(eng, st, v, callee):
        a = deref_ref(eng, st, v)
        if not isinstance(a, OpaqueV):
            raise EngineAbort("atomic op on %r" % (a,))
        if "v" not in a.attrs:
            ty = "bool" if "Bool" in a.ty or "Bool" in callee or "<bool>" in callee else "u64"
            a.attrs["v"] = eng.fresh(st, ty, "atomic_" + a.name)
        return a

    def s_atomic_new(eng, st, callee, args, dty):
        return Outcome(OpaqueV(dty if dty != "?" else "Atomic", None, {"v": args[0]}))
    S(r"^(std::sync::atomic::)?Atomic\w*(::<\w+>)?::new$", s_atomic_new)
    S(r"^(std::sync::atomic::)?Atomic\w*(::<\w+>)?::load$", lambda e, st, c, a, d: Outcome(atom(e, st, a[0], c).attrs["v"]))

    def s_atomic_store(eng, st, callee, args, dty):
        atom(eng, st, args[0], callee).attrs["v"] = args[1]
        return Outcome(UnitV())
    S(r"^(std::sync::atomic::)?Atomic\w*(::<\w+>)?::store$", s_atomic_store)

    def s_atomic_swap(eng, st, callee, args, dty):
        a = atom(eng, st, args[0], callee)
        old = a.attrs["v"]
        a.attrs["v"] = args[1]
        return Outcome(old)
    S(r"^(std::sync::atomic::)?Atomic\w*(::<\w+>)?::swap$", s_atomic_swap)

    def s_atomic_fetch(op):
        def h(eng, st, callee, args, dty):
            a = atom(eng, st, args[0], callee)
            old = a.attrs["v"]
            if isinstance(old, IntV):
                a.attrs["v"] = IntV(eng.wrap(old.t + args[1].t if op == "add" else old.t - args[1].t, old.ty), old.ty)
            elif isinstance(old, BoolV):
                a.attrs["v"] = BoolV(z3.Or(old.t, args[1].t) if op == "or" else z3.And(old.t, args[1].t))
            return Outcome(old)
        return h
    for op in ("add", "sub", "or", "and"):
        S(r"^(std::sync::atomic::)?Atomic\w*(::<\w+>)?::fetch_%s$" % op, s_atomic_fetch(op))

    # generic Vec construction and std::mem::drop
    S(r"^Vec::<.*>::(new|with_capacity)$", lambda e, st, c, a, d: Outcome(OpaqueV("Vec", None, {"items": []})))

    def s_push(eng, st, callee, args, dty):
        deref_ref(eng, st, args[0]).attrs["items"].append(args[1])
        return Outcome(UnitV())
    S(r"^Vec::<.*>::push$", s_push)

    def s_drop(eng, st, callee, args, dty):
        r = eng.drop_value(st, args[0])
        if r is not None:
            raise EngineAbort("forking drop inside mem::drop")
        return Outcome(UnitV())
    S(r"^(std::mem::|core::mem::)?drop::<", s_drop)


def install_more_extras(eng):
    """second batch of fallback summaries (validated by the self-test corpus): Option/bool helpers, Vec/slice access"""
    S = lambda rx, h: eng.add_summary(rx, h, fallback=True)
    some = lambda v: AggV("Option", 1, [v], "Some")
    none = lambda: AggV("Option", 0, [], "None")

    def opt_variants(eng, st, v, callee):
        m = re.match(r"^Option::<(.*?)>::\w+", callee, re.S)
        return variants(eng, st, v, ("Option<%s>" % m.group(1)) if m else None)

    def s_or(eng, st, callee, args, dty):
        outs = []
        for cond, v in opt_variants(eng, st, args[0], callee):
            outs.append(Outcome(v if v.vname == "Some" else args[1], [cond] if cond is not None else []))
        return outs
    S(r"^Option::<.*>::or$", s_or)

    def s_xor(eng, st, callee, args, dty):
        outs = []
        for c1, a in opt_variants(eng, st, args[0], callee):
            for c2, b in opt_variants(eng, st, args[1], callee):
                r = a if (a.vname == "Some" and b.vname == "None") else b if (a.vname == "None" and b.vname == "Some") else none()
                outs.append(Outcome(r, [c for c in (c1, c2) if c is not None]))
        return outs
    S(r"^Option::<.*>::xor$", s_xor)

    def s_and(eng, st, callee, args, dty):
        return [Outcome(args[1] if v.vname == "Some" else none(), [c] if c is not None else []) for c, v in opt_variants(eng, st, args[0], callee)]
    S(r"^Option::<.*>::and::<", s_and)

    def s_zip(eng, st, callee, args, dty):
        outs = []
        for c1, a in opt_variants(eng, st, args[0], callee):
            for c2, b in variants(eng, st, args[1], None):
                r = some(AggV("tuple", None, [a.fields[0], b.fields[0]])) if (a.vname == "Some" and b.vname == "Some") else none()
                outs.append(Outcome(r, [c for c in (c1, c2) if c is not None]))
        return outs
    S(r"^Option::<.*>::zip::<", s_zip)

    def conc(eng, st, v, callee):
        vs = opt_variants(eng, st, v, callee)
        if len(vs) != 1 or vs[0][0] is not None:
            raise EngineAbort("closure-taking combinator on a symbolic enum")
        return vs[0][1]

    def s_filter(eng, st, callee, args, dty):
        v = conc(eng, st, args[0], callee)
        if v.vname == "None":
            return Outcome(none())
        fn = find_closure_fn(eng, callee, args[1])
        outs = []
        for s2, r in eng.call_sync(st, fn, [_clo_arg(fn, args[1]), RefV(Cell(v.fields[0]))]):
            if s2.status != "running":
                outs.append((s2, None, []))
                continue
            # the payload must be re-read from the clone's memory: plain values only
            if not isinstance(v.fields[0], (IntV, BoolV, UnitV)):
                raise EngineAbort("Option::filter on a non-scalar payload")
            sat_t, _ = eng.check(s2.pc + [r.t])
            sat_f, _ = eng.check(s2.pc + [z3.Not(r.t)])
            if sat_t and sat_f:
                keep = s2.clone()
                keep.pc.append(r.t)
                outs.append((keep, some(v.fields[0]), []))
            elif sat_t:
                outs.append((s2, some(v.fields[0]), []))
                continue
            if sat_f:
                s2.pc.append(z3.Not(r.t))
                outs.append((s2, none(), []))
        return ("states", outs)
    S(r"^Option::<.*>::filter::<", s_filter)

    def s_map_or(eng, st, callee, args, dty):
        v = conc(eng, st, args[0], callee)
        if v.vname == "None":
            return Outcome(args[1])
        return call_closure(eng, st, callee, args[2], [v.fields[0]], lambda s2, r: r)
    S(r"^Option::<.*>::map_or::<", s_map_or)

    def s_map_or_else(eng, st, callee, args, dty):
        v = conc(eng, st, args[0], callee)
        if v.vname == "None":
            return call_closure(eng, st, callee, args[1], [], lambda s2, r: r)
        return call_closure(eng, st, callee, args[2], [v.fields[0]], lambda s2, r: r)
    S(r"^Option::<.*>::map_or_else::<", s_map_or_else)

    def s_or_else(eng, st, callee, args, dty):
        v = conc(eng, st, args[0], callee)
        if v.vname == "Some":
            return Outcome(v)
        return call_closure(eng, st, callee, args[1], [], lambda s2, r: r)
    S(r"^Option::<.*>::or_else::<", s_or_else)

    def s_get_or_insert(eng, st, callee, args, dty):
        r = args[0]
        v = conc(eng, st, deref_ref(eng, st, r), callee)
        if v.vname == "None":
            v = some(args[1])
            eng.write(st, r.cell, r.path, v)
        else:
            rr = eng.drop_value(st, args[1])
            if rr is not None:
                raise EngineAbort("forking drop in get_or_insert")
        return Outcome(RefV(Cell(v.fields[0])))
    S(r"^Option::<.*>::(get_or_insert|insert)$", s_get_or_insert)

    def s_unwrap_or_default(eng, st, callee, args, dty):
        outs = []
        for cond, v in variants(eng, st, args[0], None):
            if v.vname in ("Some", "Ok"):
                outs.append(Outcome(v.fields[0], [cond] if cond is not None else []))
            else:
                m = re.search(r"::<(u8|u16|u32|u64|usize|i32|i64|bool)(,|>)", callee)
                if not m:
                    raise EngineAbort("unwrap_or_default: no default for %s" % callee)
                d = BoolV(False) if m.group(1) == "bool" else IntV(0, m.group(1))
                outs.append(Outcome(d, [cond] if cond is not None else []))
        return outs
    S(r"^(Option|Result)::<.*>::unwrap_or_default$", s_unwrap_or_default)

    # inspect / inspect_err: run the closure on a reference to the payload, hand the value on unchanged
    def s_inspect(which):
        def h(eng, st, callee, args, dty):
            vs = variants(eng, st, args[0], None)
            if len(vs) != 1 or vs[0][0] is not None:
                raise EngineAbort("closure-taking combinator on a symbolic enum")
            v = vs[0][1]
            if v.vname != which:
                return Outcome(v)
            st.ghost["_inspected"] = v
            r = call_closure(eng, st, callee, args[1], [RefV(Cell(v.fields[0]))], lambda s2, r: s2.ghost.pop("_inspected"))
            return r
        return h
    S(r"^Result::<.*>::inspect_err::<", s_inspect("Err"))
    S(r"^Result::<.*>::inspect::<", s_inspect("Ok"))
    S(r"^Option::<.*>::inspect::<", s_inspect("Some"))

    # process-wide state: recorded so that lemmas can forbid it where threads run concurrently
    def s_proc(name):
        def h(eng, st, callee, args, dty):
            return Outcome(eng.fresh_int(st, "u32", "old_" + name) if name == "umask" else (ok() if name != "setenv" else UnitV()),
                           events=[Event("process-state", [name], None)])
        return h
    ok = lambda: AggV("Result", 0, [UnitV()], "Ok")
    S(r"^(libc::)?umask$|^rustix::process::umask$", s_proc("umask"))
    S(r"^std::env::set_current_dir::<|^(libc::)?(f?chdir)$|^rustix::process::f?chdir", s_proc("chdir"))
    S(r"^std::env::(set_var|remove_var)::<", s_proc("setenv"))

    # bool::then / then_some
    def s_then_some(eng, st, callee, args, dty):
        b = args[0]
        return [Outcome(some(args[1]), [b.t]), Outcome(none(), [z3.Not(b.t)])]
    S(r"^(core::bool::<impl bool>|bool)::then_some::<", s_then_some)

    def s_then(eng, st, callee, args, dty):
        b = args[0]
        sat_t, _ = eng.check(st.pc + [b.t])
        sat_f, _ = eng.check(st.pc + [z3.Not(b.t)])
        if sat_f and not sat_t:
            return Outcome(none())
        outs = []
        if sat_f:
            sf = st.clone()
            sf.pc.append(z3.Not(b.t))
            outs.append((sf, none(), []))
            st.pc.append(b.t)
        r = call_closure(eng, st, callee, args[1], [], lambda s2, r: some(r))
        return ("states", outs + r[1])
    S(r"^(core::bool::<impl bool>|bool)::then::<", s_then)

    # Vec / slice element access (concrete length per path; a symbolic index is split over the positions)
    def s_index(eng, st, callee, args, dty):
        items = items_of(eng, st, args[0])
        i = args[1]
        outs = []
        for k, it in enumerate(items):
            outs.append(Outcome(item_ref(eng, st, args[0], k), [i.t == k]))
        outs.append(Outcome(diverge="index out of bounds", conds=[z3.Or(i.t < 0, i.t >= len(items))]))
        return outs
    S(r"^<(Vec<.*>|\[.*\]) as Index(Mut)?<usize>>::index(_mut)?$", s_index)

    S(r"^<(Vec<.*>|\[.*\]) as Index(Mut)?<RangeFull>>::index(_mut)?$", lambda e, st, c, a, d: Outcome(a[0]))

    def s_get(eng, st, callee, args, dty):
        items = items_of(eng, st, args[0])
        i = args[1]
        outs = [Outcome(some(item_ref(eng, st, args[0], k)), [i.t == k]) for k, it in enumerate(items)]
        outs.append(Outcome(none(), [z3.Or(i.t < 0, i.t >= len(items))]))
        return outs
    S(r"^(Vec::<.*>|core::slice::<impl \[.*\]>)::get::<usize>$", s_get)

    def s_contains(eng, st, callee, args, dty):
        items = items_of(eng, st, args[0])
        x = deref_ref(eng, st, args[1])
        if not all(isinstance(it, (IntV, BoolV)) for it in items) or not isinstance(x, (IntV, BoolV)):
            raise EngineAbort("contains on non-scalar items")
        return Outcome(BoolV(z3.Or([it.t == x.t for it in items]) if items else z3.BoolVal(False)))
    S(r"^(Vec::<.*>|core::slice::<impl \[.*\]>)::contains$", s_contains)

    def s_clear(eng, st, callee, args, dty):
        del items_of(eng, st, args[0])[:]
        return Outcome(UnitV())
    S(r"^Vec::<.*>::clear$", s_clear)

    def s_truncate(eng, st, callee, args, dty):
        n = eng.concrete_int(st, args[1])
        if n is None:
            raise EngineAbort("Vec::truncate with a symbolic length")
        del items_of(eng, st, args[0])[n:]
        return Outcome(UnitV())
    S(r"^Vec::<.*>::truncate$", s_truncate)

    def s_insert(eng, st, callee, args, dty):
        n = eng.concrete_int(st, args[1])
        items = items_of(eng, st, args[0])
        if n is None:
            raise EngineAbort("Vec::insert at a symbolic position")
        if n > len(items):
            return Outcome(diverge="insertion index out of bounds")
        items.insert(n, args[2])
        return Outcome(UnitV())
    S(r"^Vec::<.*>::insert$", s_insert)

    def s_remove(eng, st, callee, args, dty):
        n = eng.concrete_int(st, args[1])
        items = items_of(eng, st, args[0])
        if n is None:
            raise EngineAbort("Vec::remove at a symbolic position")
        if n >= len(items):
            return Outcome(diverge="removal index out of bounds")
        return Outcome(items.pop(n))
    S(r"^Vec::<.*>::remove$", s_remove)

    # time / scheduling helpers: no observable effect in the model
    S(r"^std::thread::(sleep|yield_now)$", lambda e, st, c, a, d: Outcome(UnitV()))
    S(r"^(std::time::)?Duration::from_(secs|millis|micros|nanos)$", lambda e, st, c, a, d: Outcome(OpaqueV("Duration", None, {})))
    S(r"^(std::time::)?Instant::now$", lambda e, st, c, a, d: Outcome(OpaqueV("Instant", None, {})))

    # integer helpers
    def s_clamp(eng, st, callee, args, dty):
        x, lo, hi = args
        return [Outcome(IntV(z3.If(x.t < lo.t, lo.t, z3.If(x.t > hi.t, hi.t, x.t)), x.ty), [lo.t <= hi.t]),
                Outcome(diverge="clamp: min > max", conds=[lo.t > hi.t])]
    S(r"^<\w+ as Ord>::clamp$|^(std|core)::cmp::Ord::clamp$", s_clamp)
    S(r"^(core::num::<impl \w+>|\w+)::is_power_of_two$", lambda e, st, c, a, d: Outcome(BoolV(z3.Or([a[0].t == (1 << k) for k in range(64)]))))

    def s_next_multiple_of(eng, st, callee, args, dty):
        from sym import int_range
        x, m = args
        r = z3.If(x.t % m.t == 0, x.t, x.t + (m.t - x.t % m.t))
        lo, hi = int_range(x.ty)
        return [Outcome(IntV(r, x.ty), [m.t != 0, r <= hi]),
                Outcome(diverge="next_multiple_of: zero or overflow", conds=[z3.Or(m.t == 0, z3.And(m.t != 0, r > hi))])]
    S(r"^(core::num::<impl \w+>|\w+)::next_multiple_of$", s_next_multiple_of)
    S(r"^(core::num::<impl \w+>|\w+)::pow$", lambda e, st, c, a, d: (_ for _ in ()).throw(EngineAbort("pow is not modelled")))
