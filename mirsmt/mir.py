"""Parser for rustc's `-Zunpretty=mir` text (engine E2, DESIGN.md §2.2).

Produces, per function: argument/local types and basic blocks whose statements and
terminators are small tuples over parsed places / operands / rvalues.  Anything the
parser does not recognise raises MirError: the engine never guesses.
"""
import re


class MirError(Exception):
    pass


# ----------------------------------------------------------------------------- helpers

OPEN = "([{<"
CLOSE = ")]}>"


def split_top(s, sep=","):
    """split s at top-level separators, respecting (), [], {}, <> and string/char literals"""
    out, depth, cur, i, n = [], 0, [], 0, len(s)
    while i < n:
        c = s[i]
        if c == '"':
            j = i + 1
            while j < n and s[j] != '"':
                j += 2 if s[j] == "\\" else 1
            cur.append(s[i:j + 1])
            i = j + 1
            continue
        if c == "-" and s[i:i + 2] == "->":
            cur.append("->")
            i += 2
            continue
        if c in OPEN:
            depth += 1
        elif c in CLOSE:
            depth -= 1
        if c == sep and depth == 0:
            out.append("".join(cur).strip())
            cur = []
        else:
            cur.append(c)
        i += 1
    t = "".join(cur).strip()
    if t:
        out.append(t)
    return out


def find_top(s, tok, start=0):
    """index of first top-level occurrence of tok in s (or -1)"""
    depth, i, n = 0, start, len(s)
    while i < n:
        c = s[i]
        if c == '"':
            j = i + 1
            while j < n and s[j] != '"':
                j += 2 if s[j] == "\\" else 1
            i = j + 1
            continue
        if depth == 0 and s.startswith(tok, i):
            return i
        if c == "-" and s[i:i + 2] == "->":
            i += 2
            continue
        if c in OPEN:
            depth += 1
        elif c in CLOSE:
            depth -= 1
        i += 1
    return -1


def matching(s, i):
    """s[i] is an opener; return index of its matching closer"""
    depth, n = 0, len(s)
    j = i
    while j < n:
        c = s[j]
        if c == '"':
            k = j + 1
            while k < n and s[k] != '"':
                k += 2 if s[k] == "\\" else 1
            j = k + 1
            continue
        if c == "-" and s[j:j + 2] == "->":
            j += 2
            continue
        if c in OPEN:
            depth += 1
        elif c in CLOSE:
            depth -= 1
            if depth == 0:
                return j
        j += 1
    raise MirError("unbalanced: %r" % s)


# ----------------------------------------------------------------------------- places

class Place:
    __slots__ = ("local", "proj")

    def __init__(self, local, proj=()):
        self.local = local
        self.proj = tuple(proj)  # ("deref",) | ("field", n, ty) | ("downcast", name) | ("index", local) | ("constindex", n)

    def __repr__(self):
        return "P(_%d%s)" % (self.local, "".join("/" + ":".join(str(x) for x in p[:2]) for p in self.proj))


def parse_place(s):
    s = s.strip()
    p, rest = _place(s)
    if rest.strip():
        raise MirError("trailing in place %r: %r" % (s, rest))
    return p


def _place(s):
    s = s.lstrip()
    if s.startswith("("):
        j = matching(s, 0)
        inner = s[1:j]
        rest = s[j + 1:]
        if inner.startswith("*"):
            base, r2 = _place(inner[1:])
            if r2.strip():
                raise MirError("deref place %r" % s)
            pl = Place(base.local, base.proj + (("deref",),))
        else:
            # (PLACE.N: TYPE) | (PLACE as Variant)
            base, r2 = _place(inner)
            r2 = r2.lstrip()
            if r2.startswith("."):
                m = re.match(r"\.(\d+):\s*(.*)$", r2, re.S)
                if not m:
                    raise MirError("field place %r" % s)
                pl = Place(base.local, base.proj + (("field", int(m.group(1)), m.group(2).strip()),))
            elif r2.startswith("as "):
                pl = Place(base.local, base.proj + (("downcast", r2[3:].strip()),))
            else:
                raise MirError("paren place %r" % s)
    else:
        m = re.match(r"_(\d+)", s)
        if not m:
            raise MirError("place %r" % s)
        pl = Place(int(m.group(1)))
        rest = s[m.end():]
    # postfix index projections
    while rest.startswith("["):
        j = matching(rest, 0)
        idx = rest[1:j].strip()
        m = re.match(r"_(\d+)$", idx)
        if m:
            pl = Place(pl.local, pl.proj + (("index", int(m.group(1))),))
        else:
            m = re.match(r"(-?\d+) of (\d+)$", idx)
            if m:
                pl = Place(pl.local, pl.proj + (("constindex", int(m.group(1))),))
            else:
                m = re.match(r"(\d*):(-?\d*)$", idx)
                if m:
                    pl = Place(pl.local, pl.proj + (("subslice", idx),))
                else:
                    raise MirError("index %r" % rest)
        rest = rest[j + 1:]
    return pl, rest


# ----------------------------------------------------------------------------- operands / rvalues

BINOPS = {"Add", "Sub", "Mul", "Div", "Rem", "BitXor", "BitAnd", "BitOr", "Shl", "Shr", "Eq", "Lt", "Le",
          "Ne", "Ge", "Gt", "Cmp", "Offset", "AddWithOverflow", "SubWithOverflow", "MulWithOverflow",
          "AddUnchecked", "SubUnchecked", "MulUnchecked", "ShlUnchecked", "ShrUnchecked"}
UNOPS = {"Not", "Neg", "PtrMetadata"}


def parse_operand(s):
    s = s.strip()
    if s.startswith("const "):
        return ("const", s[6:].strip())
    if s.startswith("no_retag "):
        s = s[9:].strip()
    if s.startswith("copy "):
        return ("copy", parse_place(s[5:]))
    if s.startswith("move "):
        return ("move", parse_place(s[5:]))
    if re.match(r"^[A-Za-z_<]", s):
        return ("const", s)  # bare function item / path
    raise MirError("operand %r" % s)


def parse_rvalue(s):
    s = s.strip()
    # cast:  OPERAND as TYPE (Kind)
    m = re.match(r"^(.*) as (.+) \(([A-Za-z]+(?:\(.*\))?)\)$", s, re.S)
    if m and (s.startswith(("copy ", "move ", "const ", "no_retag "))):
        try:
            op = parse_operand(m.group(1))
            return ("cast", op, m.group(2).strip(), m.group(3))
        except MirError:
            pass
    if s.startswith(("const ", "copy ", "move ", "no_retag ")):
        return ("use", parse_operand(s))
    if s.startswith("&raw const "):
        return ("ref", "raw", parse_place(s[11:]))
    if s.startswith("&raw mut "):
        return ("ref", "rawmut", parse_place(s[9:]))
    if s.startswith("&mut "):
        return ("ref", "mut", parse_place(s[5:]))
    if s.startswith("&fake shallow "):
        return ("ref", "shared", parse_place(s[14:]))
    if s.startswith("&"):
        return ("ref", "shared", parse_place(s[1:]))
    m = re.match(r"^([A-Za-z]+)\((.*)\)$", s, re.S)
    if m:
        name, inner = m.group(1), m.group(2)
        if name in BINOPS:
            a, b = split_top(inner)
            return ("binop", name, parse_operand(a), parse_operand(b))
        if name in UNOPS:
            return ("unop", name, parse_operand(inner))
        if name == "discriminant":
            return ("discriminant", parse_place(inner))
        if name == "Len":
            return ("len", parse_place(inner))
        if name == "CopyForDeref":
            return ("use", ("copy", parse_place(inner)))
        if name in ("UbChecks", "ContractChecks", "OverflowChecks"):
            return ("nullop", name)
        if name in ("SizeOf", "AlignOf"):
            return ("nullop", name, inner)
        if name == "ShallowInitBox":
            a, _t = split_top(inner)
            return ("use", parse_operand(a))
    if s.startswith("("):
        j = matching(s, 0)
        if j == len(s) - 1:
            parts = split_top(s[1:j])
            return ("aggregate", "tuple", None, [parse_operand(p) for p in parts], None)
    if s.startswith("["):
        j = matching(s, 0)
        if j == len(s) - 1:
            inner = s[1:j]
            k = find_top(inner, ";")
            if k >= 0:
                return ("repeat", parse_operand(inner[:k]), inner[k + 1:].strip())
            return ("aggregate", "array", None, [parse_operand(p) for p in split_top(inner)], None)
    if s.startswith("{closure@") or s.startswith("{coroutine@"):
        j = matching(s, 0)
        name = s[:j + 1]
        rest = s[j + 1:].strip()
        fields = []
        if rest.startswith("{"):
            k = matching(rest, 0)
            for f in split_top(rest[1:k]):
                fn, fv = f.split(":", 1)
                fields.append((fn.strip(), parse_operand(fv)))
        return ("aggregate", "closure", name, [v for _, v in fields], [n for n, _ in fields])
    # ADT:  Path::Variant(ops) | Path { f: op } | Path::Variant
    k = find_top(s, "(")
    b = find_top(s, " {")
    if k >= 0 and s.endswith(")") and (b < 0 or k < b) and matching(s, k) == len(s) - 1:
        path = s[:k].strip()
        parts = split_top(s[k + 1:-1])
        return ("aggregate", "adt", path, [parse_operand(p) for p in parts], None)
    if b >= 0 and s.endswith("}"):
        path = s[:b].strip()
        inner = s[b + 2:-1]
        names, vals = [], []
        for f in split_top(inner):
            i = f.index(":")
            names.append(f[:i].strip())
            vals.append(parse_operand(f[i + 1:]))
        return ("aggregate", "adt", path, vals, names)
    if re.match(r"^[A-Za-z_<][\w:<>, &'\[\]\(\)\*;\-]*$", s):
        return ("aggregate", "adt", s, [], None)
    raise MirError("rvalue %r" % s)


# ----------------------------------------------------------------------------- functions

class Function:
    def __init__(self, name, args, ret):
        self.name = name
        self.args = args        # [(local, type)]
        self.ret = ret
        self.locals = {}        # local -> type
        self.blocks = {}        # n -> (stmts, term)
        self.debug = {}         # source name -> local / const
        self.cleanup = set()
        self.span = None


_RE_BB = re.compile(r"^    bb(\d+)( \(cleanup\))?: \{$")
_RE_LET = re.compile(r"^\s+let (?:mut )?_(\d+): (.*);$")
_RE_DEBUG = re.compile(r"^\s+debug (\S+) => (.*);$")


def parse_terminator(s):
    s = s.rstrip(";").strip()
    if s == "return":
        return ("return",)
    if s in ("unreachable",):
        return ("unreachable",)
    if s in ("resume", "unwind resume", "terminate(cleanup)", "terminate(abi)", "abort"):
        return ("resume",)
    m = re.match(r"^goto -> bb(\d+)$", s)
    if m:
        return ("goto", int(m.group(1)))
    m = re.match(r"^switchInt\((.*)\) -> \[(.*)\]$", s, re.S)
    if m:
        targets = []
        other = None
        for t in split_top(m.group(2)):
            k, v = t.split(":")
            v = int(v.strip()[2:])
            if k.strip() == "otherwise":
                other = v
            else:
                targets.append((int(k.strip()), v))
        return ("switch", parse_operand(m.group(1)), targets, other)
    m = re.match(r"^drop\((.*)\) -> (.*)$", s, re.S)
    if m:
        return ("drop", parse_place(m.group(1)), _succ(m.group(2)))
    if s.startswith("assert("):
        j = matching(s, 6)
        inner = split_top(s[7:j])
        cond = inner[0].strip()
        neg = cond.startswith("!")
        if neg:
            cond = cond[1:]
        return ("assert", parse_operand(cond), not neg, inner[1] if len(inner) > 1 else "", _succ(s[j + 1:].strip()[2:].strip()))
    if s.startswith("falseEdge") or s.startswith("falseUnwind"):
        m = re.search(r"bb(\d+)", s)
        return ("goto", int(m.group(1)))
    # call:  PLACE = CALLEE(ARGS) -> [return: bbN, unwind ...]   |  ... -> unwind continue (diverges)
    k = find_top(s, " = ")
    if k >= 0:
        dest = parse_place(s[:k])
        rest = s[k + 3:]
        a = find_top(rest, " -> ")
        if a < 0:
            raise MirError("call without successor %r" % s)
        callexpr, succ = rest[:a].strip(), rest[a + 4:].strip()
        p = _call_paren(callexpr)
        callee = callexpr[:p].strip()
        args = [parse_operand(x) for x in split_top(callexpr[p + 1:-1])]
        return ("call", dest, callee, args, _succ(succ))
    raise MirError("terminator %r" % s)


def _call_paren(e):
    """index of the '(' that opens the argument list (the last top-level paren group)"""
    if not e.endswith(")"):
        raise MirError("call expr %r" % e)
    depth = 0
    i = len(e) - 1
    while i >= 0:
        c = e[i]
        if c in CLOSE and not (c == ">" and i > 0 and e[i - 1] == "-"):
            depth += 1
        elif c in OPEN:
            depth -= 1
            if depth == 0:
                return i
        i -= 1
    raise MirError("call expr %r" % e)


def _succ(s):
    s = s.strip()
    m = re.match(r"^\[(.*)\]$", s, re.S)
    ret = None
    if m:
        for t in split_top(m.group(1)):
            t = t.strip()
            mm = re.match(r"^(return|success): bb(\d+)$", t)
            if mm:
                ret = int(mm.group(2))
    else:
        mm = re.match(r"^bb(\d+)$", s)
        if mm:
            ret = int(mm.group(1))
    return ret  # None: diverging


def parse_statement(s):
    s = s.strip()
    if s.endswith(";"):
        s = s[:-1]
    if s.startswith(("StorageLive(", "StorageDead(", "FakeRead(", "PlaceMention(", "AscribeUserType(",
                     "Retag(", "Coverage::", "ConstEvalCounter", "nop", "Deinit(", "BackwardIncompatibleDropHint")):
        return ("nop",)
    if s.startswith("assume("):
        return ("assume", parse_operand(s[7:-1]))
    m = re.match(r"^discriminant\((.*)\) = (\d+)$", s)
    if m:
        return ("setdisc", parse_place(m.group(1)), int(m.group(2)))
    if s.startswith("copy_nonoverlapping("):
        return ("intrinsic", s)
    k = find_top(s, " = ")
    if k < 0:
        raise MirError("statement %r" % s)
    return ("assign", parse_place(s[:k]), parse_rvalue(s[k + 3:]))


def parse_mir(text):
    """-> {name: Function}; functions whose body fails to parse carry .error"""
    funcs = {}
    lines = text.split("\n")
    i, n = 0, len(lines)
    while i < n:
        line = lines[i]
        m1 = re.match(r"^const ([\w:]+): (.+?) = const (.+);$", line)
        if m1:
            funcs.setdefault("constval:" + m1.group(1), (m1.group(3), m1.group(2)))
        is_const = (line.startswith("const ") or line.startswith("static ")) and line.rstrip().endswith("= {")
        if (line.startswith("fn ") and line.rstrip().endswith("{")) or is_const:
            if is_const:
                hdr = line.split(" ", 1)[1].rstrip()[:-3].rstrip()
                if hdr.startswith("mut "):
                    hdr = hdr[4:]
                k = find_top(hdr, ": ")
                name, args, ret = hdr[:k].strip(), [], hdr[k + 2:].strip()
            else:
                hdr = line[3:].rstrip()[:-1].rstrip()
                p = _hdr_paren(hdr)
                name = hdr[:p].strip()
                q = matching(hdr, p)
                args = []
                for a in split_top(hdr[p + 1:q]):
                    m = re.match(r"^_(\d+): (.*)$", a, re.S)
                    if m:
                        args.append((int(m.group(1)), m.group(2).strip()))
                ret = hdr[q + 1:].strip()
                ret = ret[2:].strip() if ret.startswith("->") else "()"
            f = Function(name, args, ret)
            f.span = i + 1
            for l, t in args:
                f.locals[l] = t
            i += 1
            cur = None
            err = None
            while i < n and lines[i] != "}":
                l = lines[i]
                m = _RE_BB.match(l)
                if m:
                    cur = int(m.group(1))
                    f.blocks[cur] = ([], None)
                    if m.group(2):
                        f.cleanup.add(cur)
                elif cur is not None and l == "    }":
                    cur = None
                elif cur is not None:
                    body = l.strip()
                    if body:
                        try:
                            stmts, term = f.blocks[cur]
                            if _is_term(body):
                                f.blocks[cur] = (stmts, parse_terminator(body))
                            else:
                                stmts.append(parse_statement(body))
                        except MirError as e:
                            err = err or "bb%d: %s" % (cur, e)
                else:
                    m = _RE_LET.match(l)
                    if m:
                        f.locals[int(m.group(1))] = m.group(2).strip()
                    else:
                        m = _RE_DEBUG.match(l)
                        if m:
                            f.debug.setdefault(m.group(1), m.group(2))
                i += 1
            f.error = err
            # the same name can appear twice (ctor shims): keep the first with blocks
            if name not in funcs or not funcs[name].blocks:
                funcs[name] = f
        i += 1
    return funcs


def _hdr_paren(h):
    """index of '(' opening the parameter list in a fn header (first top-level '(')"""
    depth = 0
    i, n = 0, len(h)
    while i < n:
        c = h[i]
        if c == "(" and depth == 0:
            return i
        if c == "-" and h[i:i + 2] == "->":
            i += 2
            continue
        if c in "<[{":
            depth += 1
        elif c in ">]}":
            depth -= 1
        i += 1
    raise MirError("fn header %r" % h)


def _is_term(body):
    if body.startswith(("goto ", "switchInt(", "return;", "unreachable;", "resume;", "drop(", "assert(",
                        "unwind ", "terminate(", "abort;", "falseEdge", "falseUnwind")):
        return True
    return find_top(body, " -> ") >= 0 and find_top(body, " = ") >= 0
