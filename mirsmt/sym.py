"""Symbolic execution of parsed MIR (engine E2, DESIGN.md §2.2).

Classic forking symbolic execution: control flow is explored path by path, data are
z3 terms.  Integers are mathematical Ints with explicit machine ranges; overflow is
explicit exactly where MIR makes it explicit (`*WithOverflow` + `assert`), plain
`Add/Sub/Mul` wrap.  Calls to functions present in the MIR dump are inlined (bounded
depth); every other callee must have a summary -- an unknown callee aborts the run
(never a silent havoc).  Every branch feasibility and every lemma is a solver query.
"""
import itertools
import re
import time

import z3

from mir import MirError, Place

INT_TYPES = {
    "u8": (8, False), "u16": (16, False), "u32": (32, False), "u64": (64, False), "u128": (128, False),
    "usize": (64, False), "i8": (8, True), "i16": (16, True), "i32": (32, True), "i64": (64, True),
    "i128": (128, True), "isize": (64, True), "char": (32, False),
}


def int_range(ty):
    bits, signed = INT_TYPES[ty]
    if signed:
        return -(1 << (bits - 1)), (1 << (bits - 1)) - 1
    return 0, (1 << bits) - 1


def strip_generics(t):
    out, depth = [], 0
    i = 0
    while i < len(t):
        c = t[i]
        if c == "-" and t[i:i + 2] == "->":
            if depth == 0:
                out.append("->")
            i += 2
            continue
        if c == "<":
            depth += 1
        elif c == ">":
            depth -= 1
        elif depth == 0:
            out.append(c)
        i += 1
    return "".join(out).replace("::::", "::")


# values of the external constants the code refers to by name (Linux x86_64 ABI)
NAMED_CONSTS = {
    "EOPNOTSUPP": (95, "i32"), "EINVAL": (22, "i32"), "EXDEV": (18, "i32"), "ETXTBSY": (26, "i32"),
    "ENOSYS": (38, "i32"), "EPERM": (1, "i32"), "EIO": (5, "i32"), "ENXIO": (6, "i32"),
    "FIEMAP_EXTENT_LAST": (1, "u32"), "FIEMAP_EXTENT_SHARED": (0x2000, "u32"),
    "FS_IOC_FIEMAP": (0xC020660B, "u32"), "FICLONE": (0x40049409, "u32"),
}


class EngineAbort(Exception):
    """the encoding cannot continue soundly (unknown callee, unsupported construct)"""


class NeedSplit(Exception):
    """a value must be concrete to go on (array index): the state is split over its feasible values 0..n-1"""

    def __init__(self, term, n):
        Exception.__init__(self, "case split over %d values" % n)
        self.term, self.n = term, n


# ----------------------------------------------------------------------------- values

class V:
    pass


class IntV(V):
    __slots__ = ("t", "ty")

    def __init__(self, t, ty):
        self.t = t if not isinstance(t, int) else z3.IntVal(t)
        self.ty = ty

    def __repr__(self):
        return "Int<%s>(%s)" % (self.ty, z3.simplify(self.t))


class BoolV(V):
    __slots__ = ("t",)

    def __init__(self, t):
        self.t = z3.BoolVal(t) if isinstance(t, bool) else t

    def __repr__(self):
        return "Bool(%s)" % z3.simplify(self.t)


class UnitV(V):
    def __repr__(self):
        return "()"


class StrV(V):
    __slots__ = ("s",)

    def __init__(self, s):
        self.s = s

    def __repr__(self):
        return "Str(%r)" % self.s


class MovedV(V):
    def __repr__(self):
        return "<moved>"


class FnV(V):
    __slots__ = ("name",)

    def __init__(self, name):
        self.name = name

    def __repr__(self):
        return "Fn(%s)" % self.name


class AggV(V):
    """struct / tuple / array / enum variant / closure with concrete shape"""
    __slots__ = ("ty", "variant", "fields", "vname")

    def __init__(self, ty, variant, fields, vname=None):
        self.ty = ty
        self.variant = variant   # int for enums, None otherwise
        self.fields = list(fields)
        self.vname = vname

    def __repr__(self):
        return "%s%s%r" % (self.ty, ("::" + str(self.vname if self.vname else self.variant)) if self.variant is not None else "", self.fields)


class OpaqueV(V):
    """value of a type the engine does not look into; fields/discriminant materialise lazily"""
    _ids = itertools.count()
    __slots__ = ("ty", "name", "attrs")

    def __init__(self, ty, name=None, attrs=None):
        self.ty = ty
        self.name = name or "o%d" % next(OpaqueV._ids)
        self.attrs = attrs if attrs is not None else {}

    def __repr__(self):
        return "Opaque<%s>#%s" % (self.ty, self.name)


class Cell:
    __slots__ = ("v",)

    def __init__(self, v=None):
        self.v = v


class ItemCell(Cell):
    """the k-th element of a list-like value (Vec / slice items, array fields): reads and writes go to the owner,
    so `v[i] += 1`, `*v.last_mut().unwrap() = x` are seen by later reads of the container"""
    __slots__ = ("owner", "k")

    def __init__(self, owner, k):
        self.owner, self.k = owner, k

    def _list(self):
        o = self.owner
        return o.attrs["items"] if isinstance(o, OpaqueV) else o.fields

    @property
    def v(self):
        return self._list()[self.k]

    @v.setter
    def v(self, x):
        self._list()[self.k] = x


class RefV(V):
    __slots__ = ("cell", "path")

    def __init__(self, cell, path=()):
        self.cell = cell
        self.path = tuple(path)

    def __repr__(self):
        return "Ref(%r%s)" % (self.cell.v if not self.path else "...", "/".join(map(str, self.path)))


# ----------------------------------------------------------------------------- state

class Frame:
    __slots__ = ("fn", "locals", "bb", "dest", "ret_bb", "visits", "on_return", "stop", "resume")

    def __init__(self, fn):
        self.fn = fn
        self.locals = {}
        self.bb = 0
        self.dest = None      # (cell, path) in the caller
        self.ret_bb = None
        self.visits = {}
        self.on_return = None
        self.stop = False
        self.resume = 0       # statement index to resume at after a case split inside the block


class Event:
    __slots__ = ("name", "args", "ret", "info")

    def __init__(self, name, args, ret=None, info=None):
        self.name, self.args, self.ret, self.info = name, args, ret, info or {}

    def __repr__(self):
        return "Ev(%s %r -> %r %r)" % (self.name, self.args, self.ret, self.info)


class State:
    def __init__(self):
        self.frames = []
        self.pc = []          # list of z3 Bool
        self.trace = []       # list of Event
        self.status = "running"
        self.ret = None
        self.msg = ""
        self.ghost = {}       # property-specific bookkeeping (plain python / z3 terms; copied shallowly)
        self.heap = []        # extra cells kept alive (for cloning identity)

    def clone(self):
        memo = {}
        s = State()
        s.pc = list(self.pc)
        s.trace = [Event(e.name, [_cp(a, memo) for a in e.args], _cp(e.ret, memo), dict(e.info)) for e in self.trace]
        s.status, s.msg = self.status, self.msg
        s.ret = _cp(self.ret, memo)
        s.ghost = {k: (_cp(v, memo) if isinstance(v, (V, Cell, list, dict, tuple)) else (set(v) if isinstance(v, set) else v)) for k, v in self.ghost.items()}
        for f in self.frames:
            g = Frame(f.fn)
            g.bb, g.ret_bb, g.visits, g.on_return, g.stop = f.bb, f.ret_bb, dict(f.visits), f.on_return, f.stop
            g.resume = f.resume
            g.locals = {k: _cp(c, memo) for k, c in f.locals.items()}
            g.dest = (_cp(f.dest[0], memo), f.dest[1]) if f.dest else None
            s.frames.append(g)
        return s


def _cp(v, memo):
    if v is None or isinstance(v, (IntV, BoolV, UnitV, StrV, MovedV, FnV, str, int, bool, float)):
        return v
    i = id(v)
    if i in memo:
        return memo[i]
    if isinstance(v, ItemCell):
        c = ItemCell(None, v.k)
        memo[i] = c
        c.owner = _cp(v.owner, memo)
        return c
    if isinstance(v, Cell):
        c = Cell()
        memo[i] = c
        c.v = _cp(v.v, memo)
        return c
    if isinstance(v, AggV):
        a = AggV(v.ty, v.variant, [], v.vname)
        memo[i] = a
        a.fields = [_cp(x, memo) for x in v.fields]
        return a
    if isinstance(v, OpaqueV):
        o = OpaqueV(v.ty, v.name, {})
        memo[i] = o
        o.attrs = {k: _cp(x, memo) for k, x in v.attrs.items()}
        return o
    if isinstance(v, RefV):
        r = RefV(None, v.path)
        memo[i] = r
        r.cell = _cp(v.cell, memo)
        return r
    if isinstance(v, list):
        l = []
        memo[i] = l
        l.extend(_cp(x, memo) for x in v)
        return l
    if isinstance(v, tuple):
        return tuple(_cp(x, memo) for x in v)
    if isinstance(v, dict):
        d = {}
        memo[i] = d
        for k, x in v.items():
            d[k] = _cp(x, memo)
        return d
    return v  # z3 terms and other immutables are shared


# ----------------------------------------------------------------------------- engine

STD_ENUMS = {
    "Result": ["Ok", "Err"], "Option": ["None", "Some"], "ControlFlow": ["Continue", "Break"],
    "Cow": ["Borrowed", "Owned"], "Ordering": ["Less", "Equal", "Greater"],
    "SeekFrom": ["Start", "End", "Current", "Data", "Hole"],
    "Component": ["Prefix", "RootDir", "CurDir", "ParentDir", "Normal"],
    "IntErrorKind": ["Empty", "InvalidDigit", "PosOverflow", "NegOverflow", "Zero"],
}


class Outcome:
    """one way a summarised call can end"""
    __slots__ = ("ret", "conds", "events", "effect", "diverge")

    def __init__(self, ret=None, conds=(), events=(), effect=None, diverge=None):
        self.ret, self.conds, self.events, self.effect, self.diverge = ret, list(conds), list(events), effect, diverge


class Engine:
    def __init__(self, funcs, enums=None, loop_bound=4, depth_bound=12, timeout_s=600):
        self.funcs = funcs
        self.enums = dict(STD_ENUMS)
        self.enums.update(enums or {})
        self.summaries = []     # (compiled regex, handler)
        self.drop_hooks = []    # (compiled regex on type, handler(engine, state, value) -> None or list of states)
        self.inline = []        # regexes of MIR functions that may be inlined
        self.loop_bound = loop_bound
        self.depth_bound = depth_bound
        self.queries = 0
        self.solver_s = 0.0
        self.fresh_ids = itertools.count()
        self.functions_encoded = set()
        self.deadline = time.time() + timeout_s
        self.max_paths = 20000
        self.query_log = []
        self.steps = 0

    # ---- solver
    def check(self, conds):
        self.queries += 1
        s = z3.Solver()
        s.set("timeout", self.z3_timeout_ms if hasattr(self, "z3_timeout_ms") else 60000)
        for c in conds:
            s.add(c)
        t0 = time.time()
        r = s.check()
        self.solver_s += time.time() - t0
        if r == z3.unknown:
            # second opinion (cvc5 is often stronger on strings/regex); still unknown => abort, never a pass
            ans = self._cvc5_check(s)
            if ans is None:
                raise EngineAbort("solver returned unknown (z3 and cvc5)")
            self.cvc5_decided = getattr(self, "cvc5_decided", 0) + 1
            return ans, None
        return r == z3.sat, (s.model() if r == z3.sat else None)

    def _cvc5_check(self, solver):
        import subprocess
        txt = "(set-logic ALL)\n" + solver.to_smt2()
        t0 = time.time()
        try:
            r = subprocess.run(["cvc5", "--lang", "smt2", "--tlimit", "120000", "--strings-exp"], input=txt, capture_output=True, text=True, timeout=150)
        except Exception:
            return None
        finally:
            self.solver_s += time.time() - t0
        out = r.stdout.strip().splitlines()
        if not out or "(error" in r.stdout:
            return None
        return {"sat": True, "unsat": False}.get(out[0].strip())

    def feasible(self, st, extra=()):
        return self.check(st.pc + list(extra))[0]

    def valid(self, pc, claim):
        """is `claim` implied by pc?  -> (True, None) or (False, model)"""
        sat, m = self.check(list(pc) + [z3.Not(claim)])
        return (not sat), m

    # ---- fresh symbolic values
    def fresh_int(self, st, ty, hint="v"):
        t = z3.Int("%s_%d" % (re.sub(r"\W+", "_", hint), next(self.fresh_ids)))
        lo, hi = int_range(ty)
        st.pc.append(z3.And(t >= lo, t <= hi))
        return IntV(t, ty)

    def fresh(self, st, ty, hint="v"):
        ty = ty.strip()
        if ty in INT_TYPES:
            return self.fresh_int(st, ty, hint)
        if ty == "bool":
            return BoolV(z3.Bool("%s_%d" % (re.sub(r"\W+", "_", hint), next(self.fresh_ids))))
        if ty == "()":
            return UnitV()
        if ty.startswith("&"):
            inner = re.sub(r"^&('\w+ )?(mut )?", "", ty)
            return RefV(Cell(self.fresh(st, inner, hint)))
        if ty.startswith("(") and ty.endswith(")"):
            from mir import split_top
            return AggV("tuple", None, [self.fresh(st, t, hint) for t in split_top(ty[1:-1])])
        return OpaqueV(ty, "%s_%d" % (re.sub(r"\W+", "_", hint), next(self.fresh_ids)))

    # ---- enum helpers
    def enum_of(self, ty):
        """-> variant name list for a type string, or None"""
        base = strip_generics(ty.strip()).rstrip(":").split("::")[-1].strip()
        return self.enums.get(base)

    def variant_index(self, ty_or_path, vname):
        names = self.enum_of(ty_or_path)
        if names is None or vname not in names:
            raise EngineAbort("unknown enum variant %s of %s" % (vname, ty_or_path))
        return names.index(vname)

    def mk_variant(self, ty, vname, fields=()):
        return AggV(ty, self.variant_index(ty, vname), list(fields), vname)

    # ---- memory
    def resolve(self, st, fr, place):
        cell = fr.locals.get(place.local)
        if cell is None:
            cell = fr.locals[place.local] = Cell()
        path = ()
        for p in place.proj:
            if p[0] == "deref":
                v = self.read(st, cell, path, None)
                if isinstance(v, RefV):
                    cell, path = v.cell, v.path
                elif isinstance(v, OpaqueV):
                    # Box<T> / raw pointer modelled as opaque owner of one inner cell
                    inner = v.attrs.get("inner")
                    if inner is None:
                        inner = v.attrs["inner"] = Cell(OpaqueV("*" + v.ty, v.name + "_in"))
                    cell, path = inner, ()
                else:
                    raise EngineAbort("deref of non-reference %r in %s" % (v, fr.fn.name))
            elif p[0] == "field":
                path = path + (("f", p[1], p[2]),)
            elif p[0] == "downcast":
                path = path + (("d", p[1]),)
            elif p[0] == "index":
                iv = fr.locals[p[1]].v
                k = self.concrete_int(st, iv)
                if k is None:
                    base = self.read(st, cell, path, None)
                    if isinstance(base, AggV) and base.variant is None and len(base.fields) <= 64:
                        raise NeedSplit(iv.t, len(base.fields))
                    raise EngineAbort("symbolic array index in %s" % fr.fn.name)
                path = path + (("i", k),)
            elif p[0] == "constindex":
                path = path + (("i", p[1]),)
            else:
                raise EngineAbort("projection %r" % (p,))
        return cell, path

    def concrete_int(self, st, v):
        if isinstance(v, IntV):
            s = z3.simplify(v.t)
            if z3.is_int_value(s):
                return s.as_long()
            # unique under pc?
            sat, m = self.check(st.pc)
            if sat:
                val = m.eval(v.t, model_completion=True)
                ok, _ = self.valid(st.pc, v.t == val)
                if ok:
                    return val.as_long()
        return None

    def read(self, st, cell, path, ty_hint):
        v = cell.v
        vctx = None
        for p in path:
            if v is None or isinstance(v, MovedV):
                raise EngineAbort("read through uninitialised/moved value (path %r)" % (path,))
            if p[0] == "f":
                if isinstance(v, AggV):
                    if p[1] >= len(v.fields):
                        raise EngineAbort("field %d out of range in %r" % (p[1], v))
                    v = v.fields[p[1]]
                elif isinstance(v, OpaqueV):
                    key = ("f", vctx, p[1])
                    if key not in v.attrs:
                        v.attrs[key] = self.fresh(st, p[2], "%s_%s%d" % (v.name, (vctx + "_") if vctx else "", p[1]))
                    v = v.attrs[key]
                else:
                    raise EngineAbort("field of %r" % (v,))
                vctx = None
            elif p[0] == "d":
                if isinstance(v, AggV):
                    if v.vname is not None and v.vname != p[1]:
                        raise EngineAbort("downcast to %s of %r" % (p[1], v))
                    vctx = None
                else:
                    vctx = p[1]
            elif p[0] == "i":
                if isinstance(v, AggV):
                    v = v.fields[p[1]]
                else:
                    raise EngineAbort("index of %r" % (v,))
        return v

    def write(self, st, cell, path, val):
        if not path:
            cell.v = val
            return
        parent = self.read(st, cell, path[:-1], None)
        # downcast steps do not select a value
        last = path[-1]
        vctx = None
        k = len(path) - 2
        while last[0] == "d":
            raise EngineAbort("write to a bare downcast")
        if k >= 0 and path[k][0] == "d":
            vctx = path[k][1]
        if last[0] == "f":
            if isinstance(parent, AggV):
                while len(parent.fields) <= last[1]:
                    parent.fields.append(None)
                parent.fields[last[1]] = val
            elif isinstance(parent, OpaqueV):
                parent.attrs[("f", vctx, last[1])] = val
            elif parent is None or isinstance(parent, MovedV):
                # building a value field by field
                agg = AggV("?", None, [])
                self.write(st, cell, path[:-1], agg)
                self.write(st, cell, path, val)
            else:
                raise EngineAbort("write field of %r" % (parent,))
        elif last[0] == "i":
            parent.fields[last[1]] = val
        else:
            raise EngineAbort("write path %r" % (path,))

    # ---- operands
    def operand(self, st, fr, op):
        k = op[0]
        if k == "const":
            self._const_fn = fr.fn.name
            return self.const(st, op[1])
        cell, path = self.resolve(st, fr, op[1])
        v = self.read(st, cell, path, None)
        if v is None:
            raise EngineAbort("read of uninitialised %r in %s" % (op[1], fr.fn.name))
        if k == "move" and not isinstance(v, (IntV, BoolV, UnitV, StrV, FnV, RefV)):
            self.write(st, cell, path, MovedV())
        return v

    def const(self, st, text):
        t = text.strip()
        m = re.match(r"^(-?\d+)_(\w+)$", t)
        if m and m.group(2) in INT_TYPES:
            return IntV(int(m.group(1)), m.group(2))
        if t == "true":
            return BoolV(True)
        if t == "false":
            return BoolV(False)
        if t == "()":
            return UnitV()
        if t.startswith('"'):
            return StrV(bytes(t[1:-1], "utf-8").decode("unicode_escape"))
        if t.startswith('b"'):
            return OpaqueV("bytes", "const:" + t[:40], {"text": t})
        if re.match(r"^(.+::promoted\[\d+\])$", t):
            segs = t.split("::")
            for i in range(len(segs)):
                cand = "::".join(segs[i:])
                if cand in self.funcs:
                    return self.eval_const_item(st, self.funcs[cand])
            m2 = re.match(r"^<(.+) as (.+)>::(.*)$", t)
            if m2:
                cand = "<%s as %s>::%s" % (strip_generics(m2.group(1)).split("::")[-1],
                                           strip_generics(m2.group(2)).split("::")[-1], m2.group(3))
                if cand in self.funcs:
                    return self.eval_const_item(st, self.funcs[cand])
            # generic functions: `m::f::<impl Trait>::promoted[0]` is dumped as `f::promoted[0]`
            t2 = re.sub(r"::<[^<>]*(?:<[^<>]*>[^<>]*)*>", "", t)
            segs = t2.split("::")
            for i in range(len(segs)):
                cand = "::".join(segs[i:])
                if cand in self.funcs:
                    return self.eval_const_item(st, self.funcs[cand])
            # trait impls: the use site spells the impl (`m::<impl From<&A> for B>::from::promoted[0]`), the dump names it by its
            # source span (`m::<impl at src/x.rs:1:1: 2:2>::from::promoted[0]`): a promoted belongs to the function that uses it
            mp = re.search(r"::(promoted\[\d+\])$", t)
            cur = getattr(self, "_const_fn", None)
            if mp and cur and (cur + "::" + mp.group(1)) in self.funcs:
                return self.eval_const_item(st, self.funcs[cur + "::" + mp.group(1)])
            raise EngineAbort("promoted constant %r not found in the MIR dump" % t)
        m = re.match(r"^'(.*)'$", t)
        if m:
            return IntV(ord(bytes(m.group(1), "utf-8").decode("unicode_escape")), "char")
        m = re.match(r"^(\w+)::MAX$", t)
        if m and m.group(1) in INT_TYPES:
            return IntV(int_range(m.group(1))[1], m.group(1))
        m = re.match(r"^core::num::<impl (\w+)>::(MAX|MIN)$", t)
        if m and m.group(1) in INT_TYPES:
            return IntV(int_range(m.group(1))[1 if m.group(2) == "MAX" else 0], m.group(1))
        m = re.match(r"^(\w+)::MIN$", t)
        if m and m.group(1) in INT_TYPES:
            return IntV(int_range(m.group(1))[0], m.group(1))
        # named constants: crate-local `const X: T = const V;` items and the external table
        last = t.split("::")[-1]
        if ("constval:" + last) in self.funcs and re.match(r"^[\w:]+$", t):
            cv = self.funcs["constval:" + last]
            if cv[1] in INT_TYPES and re.match(r"^-?\d+$", cv[0]):
                return IntV(int(cv[0]), cv[1])
            return self.const(st, cv[0])
        if last in NAMED_CONSTS and re.match(r"^[\w:]+$", t):
            v, ty = NAMED_CONSTS[last]
            return IntV(v, ty)
        # unit enum variant   Path::Variant
        m = re.match(r"^(.*)::(\w+)$", t)
        if m:
            names = self.enum_of(m.group(1))
            if names and m.group(2) in names:
                return AggV(m.group(1), names.index(m.group(2)), [], m.group(2))
        if t in self.funcs or re.match(r"^[\w:<>&' ,\[\]\(\)\{\}@/\.#\-\*]+$", t):
            # function item / ZST / promoted: opaque constant identified by its text
            return OpaqueV("const", "const:" + t)
        raise EngineAbort("constant %r" % text)

    def eval_const_item(self, st, fn):
        """evaluate a promoted constant / const item body (straight-line code)"""
        fr = Frame(fn)
        bb = 0
        for _ in range(64):
            stmts, term = fn.blocks[bb]
            for s in stmts:
                self.statement(st, fr, s)
            if term[0] == "return":
                return fr.locals[0].v
            if term[0] == "goto":
                bb = term[1]
                continue
            raise EngineAbort("const item %s has a non-trivial body" % fn.name)
        raise EngineAbort("const item %s did not finish" % fn.name)

    # ---- rvalues
    def rvalue(self, st, fr, rv, dest_ty=None):
        k = rv[0]
        if k == "use":
            return self.operand(st, fr, rv[1])
        if k == "ref":
            cell, path = self.resolve(st, fr, rv[2])
            return RefV(cell, path)
        if k == "binop":
            a = self.operand(st, fr, rv[2])
            b = self.operand(st, fr, rv[3])
            return self.binop(st, rv[1], a, b)
        if k == "unop":
            a = self.operand(st, fr, rv[2])
            if rv[1] == "Not":
                if isinstance(a, BoolV):
                    return BoolV(z3.Not(a.t))
                if isinstance(a, IntV):
                    lo, hi = int_range(a.ty)
                    return IntV(hi - a.t if lo == 0 else -a.t - 1, a.ty)
            if rv[1] == "Neg" and isinstance(a, IntV):
                return IntV(-a.t, a.ty)
            if rv[1] == "PtrMetadata":
                v = self.read(st, a.cell, a.path, None) if isinstance(a, RefV) else a
                if isinstance(v, OpaqueV) and "items" in v.attrs:
                    return IntV(len(v.attrs["items"]), "usize")
                if isinstance(v, AggV) and v.ty == "array":
                    return IntV(len(v.fields), "usize")
                if isinstance(v, StrV):
                    return IntV(len(v.s.encode()), "usize")
            raise EngineAbort("unop %s on %r" % (rv[1], a))
        if k == "discriminant":
            cell, path = self.resolve(st, fr, rv[1])
            v = self.read(st, cell, path, None)
            return self.discriminant(st, v)
        if k == "cast":
            a = self.operand(st, fr, rv[1])
            return self.cast(st, a, rv[2], rv[3])
        if k == "aggregate":
            vals = [self.operand(st, fr, o) for o in rv[3]]
            if rv[1] == "tuple":
                return AggV("tuple", None, vals)
            if rv[1] == "array":
                return AggV("array", None, vals)
            if rv[1] == "closure":
                return AggV(rv[2], None, vals, vname=("closure", tuple(rv[4] or ())))
            path = rv[2]
            m = re.match(r"^(.*)::(\w+)$", path)
            if m:
                names = self.enum_of(m.group(1))
                if names and m.group(2) in names:
                    return AggV(m.group(1), names.index(m.group(2)), vals, m.group(2))
            names = self.enum_of(path)
            if names and not vals and path.split("::")[-1] in names:
                return AggV(path, names.index(path.split("::")[-1]), [], path.split("::")[-1])
            # bare variant name (`Data(..)`): resolve through the destination's declared type
            last = strip_generics(path).split("::")[-1]
            if dest_ty:
                names = self.enum_of(dest_ty)
                if names and last in names:
                    return AggV(dest_ty, names.index(last), vals, last)
            return AggV(path, None, vals)
        if k == "repeat":
            v = self.operand(st, fr, rv[1])
            try:
                n = int(re.sub(r"_usize$", "", rv[2].replace("const ", "")))
            except ValueError:
                raise EngineAbort("repeat count %r" % rv[2])
            if n > 64:
                return OpaqueV("array", None, {"elem": v, "len": n})
            return AggV("array", None, [_cp(v, {}) for _ in range(n)])
        if k == "len":
            cell, path = self.resolve(st, fr, rv[1])
            v = self.read(st, cell, path, None)
            if isinstance(v, AggV):
                return IntV(len(v.fields), "usize")
            raise EngineAbort("Len of %r" % (v,))
        if k == "nullop":
            if rv[1] in ("UbChecks", "ContractChecks"):
                return BoolV(False)
            if rv[1] == "OverflowChecks":
                return BoolV(True)
        raise EngineAbort("rvalue %r" % (rv,))

    def discriminant(self, st, v):
        if isinstance(v, AggV) and v.variant is not None:
            return IntV(v.variant, "isize")
        if isinstance(v, OpaqueV):
            if "disc" not in v.attrs:
                names = self.enum_of(v.ty)
                d = z3.Int("%s_disc" % v.name)
                if names:
                    st.pc.append(z3.And(d >= 0, d < len(names)))
                else:
                    st.pc.append(d >= 0)
                v.attrs["disc"] = IntV(d, "isize")
            return v.attrs["disc"]
        if isinstance(v, BoolV):
            return IntV(z3.If(v.t, 1, 0), "isize")
        raise EngineAbort("discriminant of %r" % (v,))

    def binop(self, st, op, a, b):
        if isinstance(a, BoolV) and isinstance(b, BoolV):
            f = {"Eq": lambda x, y: x == y, "Ne": lambda x, y: x != y, "BitAnd": z3.And, "BitOr": z3.Or,
                 "BitXor": z3.Xor}.get(op)
            if f is None:
                raise EngineAbort("bool binop %s" % op)
            return BoolV(f(a.t, b.t))
        if isinstance(a, AggV) and isinstance(b, AggV) and a.variant is not None and op in ("Eq", "Ne"):
            r = a.variant == b.variant
            return BoolV(r if op == "Eq" else not r)
        if not (isinstance(a, IntV) and isinstance(b, IntV)):
            raise EngineAbort("binop %s on %r, %r" % (op, a, b))
        x, y, ty = a.t, b.t, a.ty
        lo, hi = int_range(ty)
        span = hi - lo + 1
        if op in ("Eq", "Ne", "Lt", "Le", "Gt", "Ge"):
            f = {"Eq": x == y, "Ne": x != y, "Lt": x < y, "Le": x <= y, "Gt": x > y, "Ge": x >= y}[op]
            return BoolV(f)
        if op in ("AddWithOverflow", "SubWithOverflow", "MulWithOverflow"):
            r = {"A": x + y, "S": x - y, "M": x * y}[op[0]]
            ovf = z3.Or(r > hi, r < lo)
            if op[0] == "M":
                wrapped = self.wrap(r, ty)
            else:
                wrapped = z3.If(r > hi, r - span, z3.If(r < lo, r + span, r))
            return AggV("tuple", None, [IntV(wrapped, ty), BoolV(ovf)], vname=("ovf", r, ty))
        if op in ("Add", "Sub", "AddUnchecked", "SubUnchecked"):
            r = x + y if op[0] == "A" else x - y
            if op.endswith("Unchecked"):
                return IntV(r, ty)
            return IntV(z3.If(r > hi, r - span, z3.If(r < lo, r + span, r)), ty)
        if op in ("Mul", "MulUnchecked"):
            return IntV(self.wrap(x * y, ty) if op == "Mul" else x * y, ty)
        if op == "Div":
            if lo < 0:
                q = z3.If(z3.And(x >= 0, y > 0), x / y, z3.If(z3.And(x < 0, y > 0), -((-x) / y),
                          z3.If(z3.And(x >= 0, y < 0), -(x / (-y)), (-x) / (-y))))
                return IntV(q, ty)
            return IntV(x / y, ty)
        if op == "Rem":
            if lo < 0:
                raise EngineAbort("signed Rem")
            return IntV(x % y, ty)
        if op == "BitAnd":
            # single-bit mask: stay in integer arithmetic (bit-blasting Int2BV is slow)
            for u, v in ((x, y), (y, x)):
                c = z3.simplify(v)
                if z3.is_int_value(c) and c.as_long() > 0 and (c.as_long() & (c.as_long() - 1)) == 0 and lo == 0:
                    k = c.as_long()
                    return IntV(((u / k) % 2) * k, ty)
        if op in ("BitAnd", "BitOr", "BitXor"):
            bits = INT_TYPES[ty][0]
            f = {"BitAnd": lambda p, q: p & q, "BitOr": lambda p, q: p | q, "BitXor": lambda p, q: p ^ q}[op]
            r = z3.BV2Int(f(z3.Int2BV(x, bits), z3.Int2BV(y, bits)), lo < 0)
            return IntV(r, ty)
        if op in ("Shl", "Shr", "ShlUnchecked", "ShrUnchecked"):
            k = z3.simplify(y)
            if not z3.is_int_value(k):
                raise EngineAbort("symbolic shift amount")
            k = k.as_long()
            if op.startswith("Shl"):
                return IntV(self.wrap(x * (1 << k), ty), ty)
            return IntV(x / (1 << k), ty)
        if op == "Cmp":
            return AggV("Ordering", None, [IntV(z3.If(x < y, -1, z3.If(x == y, 0, 1)), "i8")])
        raise EngineAbort("binop %s" % op)

    def wrap(self, t, ty):
        lo, hi = int_range(ty)
        span = hi - lo + 1
        if lo == 0:
            return t % span
        return ((t - lo) % span) + lo

    def cast(self, st, a, ty, kind):
        ty = ty.strip()
        if kind.startswith("IntToInt"):
            if isinstance(a, BoolV):
                return IntV(z3.If(a.t, 1, 0), ty)
            if isinstance(a, AggV) and a.variant is not None:
                return IntV(a.variant, ty)
            if isinstance(a, OpaqueV):
                return IntV(self.discriminant(st, a).t, ty)
            if not isinstance(a, IntV) or ty not in INT_TYPES:
                raise EngineAbort("IntToInt %r -> %s" % (a, ty))
            slo, shi = int_range(a.ty)
            dlo, dhi = int_range(ty)
            if slo >= dlo and shi <= dhi:
                return IntV(a.t, ty)
            return IntV(self.wrap(a.t, ty), ty)
        if kind.startswith("PointerCoercion") or kind in ("PtrToPtr", "Transmute", "FnPtrToPtr"):
            return a
        raise EngineAbort("cast kind %s" % kind)

    # ---- running
    def add_summary(self, pattern, handler, front=False, fallback=False):
        if fallback:
            self.fallbacks = getattr(self, "fallbacks", [])
            self.fallbacks.append((re.compile(pattern), handler))
        elif front:
            self.summaries.insert(0, (re.compile(pattern), handler))
        else:
            self.summaries.append((re.compile(pattern), handler))

    def add_drop_hook(self, pattern, handler):
        self.drop_hooks.append((re.compile(pattern), handler))

    def find_summary(self, callee, fallbacks=True):
        for rx, h in self.summaries:
            if rx.search(callee):
                return h
        if fallbacks:
            for rx, h in getattr(self, "fallbacks", []):
                if rx.search(callee):
                    return h
        return None

    def find_fn(self, callee):
        if callee in self.funcs:
            return self.funcs[callee]
        # strip generic args and leading crate paths
        c = re.sub(r"::<[^()]*>$", "", callee)
        if c in self.funcs:
            return self.funcs[c]
        return None

    def find_sibling_fn(self, callee):
        """a function of another workspace crate (libxcp -> libfs, xcp -> libxcp/libfs) that no lemma summarises:
        its MIR is loaded on demand and executed like a crate-local function"""
        loader = getattr(self, "sibling_loader", None)
        if loader is None or "{closure" in callee or callee.startswith("<"):
            return None
        c = re.sub(r"::<[^()]*>$", "", callee)
        segs = c.split("::")
        if segs[0] in ("std", "core", "alloc"):
            return None
        if not hasattr(self, "_sibling_funcs"):
            self._sibling_funcs = loader()
        hits = []
        for funcs in self._sibling_funcs:
            for name, fn in funcs.items():
                if not hasattr(fn, "blocks") or not fn.blocks:
                    continue
                ns = name.split("::")
                if ns[-1] == segs[-1] and (len(segs) == 1 or ns[-len(segs) + 1:] == segs[1:] or ns[-len(segs):] == segs):
                    hits.append((funcs, fn))
        uniq = {id(fn): (funcs, fn) for funcs, fn in hits}
        if len(uniq) != 1:
            return None
        funcs, fn = list(uniq.values())[0]
        # the callee's own callees, constants and promoteds resolve in its crate: merge what does not collide
        for k, v in funcs.items():
            self.funcs.setdefault(k, v)
        return fn

    def push_call(self, st, fn, args, dest, ret_bb, on_return=None):
        if len(st.frames) >= self.depth_bound:
            raise EngineAbort("inline depth bound exceeded at %s" % fn.name)
        if fn.error:
            raise EngineAbort("function %s did not parse: %s" % (fn.name, fn.error))
        self.functions_encoded.add(fn.name)
        fr = Frame(fn)
        for (l, _t), v in zip(fn.args, args):
            fr.locals[l] = Cell(v)
        fr.dest, fr.ret_bb, fr.on_return = dest, ret_bb, on_return
        st.frames.append(fr)

    def call_sync(self, st, fn, args):
        """run MIR function `fn` to completion from inside a summary: -> [(state, return value)]
        (states that panic/abort inside are returned with ret None and their status set)"""
        self.push_call(st, fn, args, None, None)
        st.frames[-1].stop = True
        outs = []
        for s2 in self.explore([st]):
            if s2.status == "subreturn":
                s2.status = "running"
                r, s2.ret = s2.ret, None
                outs.append((s2, r))
            else:
                outs.append((s2, None))
        return outs

    def run(self, fn_name, args, st=None, setup=None):
        """explore all paths of fn_name from `args`; returns the list of finished states"""
        fn = self.find_fn(fn_name)
        if fn is None:
            raise EngineAbort("no MIR for %s" % fn_name)
        st = st or State()
        self.push_call(st, fn, args, None, None)
        if setup:
            setup(st)
        return self.explore([st])

    def explore(self, work):
        done = []
        while work:
            if time.time() > self.deadline:
                raise EngineAbort("engine time budget exceeded")
            if len(done) + len(work) > self.max_paths:
                raise EngineAbort("path budget exceeded")
            st = work.pop()
            try:
                more = self.step_until_fork(st)
            except MirError as e:
                raise EngineAbort(str(e))
            for s in more:
                if s.status == "running":
                    work.append(s)
                else:
                    done.append(s)
        return done

    def step_until_fork(self, st):
        """run st until it finishes or forks; returns resulting states"""
        while st.status == "running":
            fr = st.frames[-1]
            start, fr.resume = fr.resume, 0
            if start == 0:
                n = fr.visits.get(fr.bb, 0) + 1
                fr.visits[fr.bb] = n
                if n > self.loop_bound + 1:
                    st.status, st.msg = "bound", "loop bound %d exceeded at %s bb%d" % (self.loop_bound, fr.fn.name, fr.bb)
                    return [st]
            stmts, term = fr.fn.blocks[fr.bb]
            self.steps += 1
            i = start
            try:
                while i < len(stmts):
                    self.statement(st, fr, stmts[i])
                    i += 1
                res = self.terminator(st, fr, term)
            except NeedSplit as ns:
                # re-run the interrupted statement (or terminator) once per feasible value of the index
                outs = []
                for k in range(ns.n):
                    sat, _m = self.check(st.pc + [ns.term == k])
                    if not sat:
                        continue
                    s2 = st.clone()
                    s2.pc.append(ns.term == k)
                    s2.frames[-1].resume = i if i > 0 else 0
                    if i == 0:
                        s2.frames[-1].visits[fr.bb] -= 1
                    outs.append(s2)
                if not outs:
                    st.status = "infeasible"
                    return [st]
                return outs
            if res is not None:
                return res
        return [st]

    def statement(self, st, fr, s):
        k = s[0]
        if k == "nop":
            return
        if k == "assign":
            v = self.rvalue(st, fr, s[2], fr.fn.locals.get(s[1].local) if not s[1].proj else None)
            cell, path = self.resolve(st, fr, s[1])
            self.write(st, cell, path, v)
            return
        if k == "setdisc":
            cell, path = self.resolve(st, fr, s[1])
            v = self.read(st, cell, path, None)
            if isinstance(v, AggV):
                v.variant = s[2]
                names = self.enum_of(v.ty) if v.ty != "?" else None
                v.vname = names[s[2]] if names and s[2] < len(names) else None
            else:
                raise EngineAbort("set_discriminant on %r" % (v,))
            return
        if k == "assume":
            v = self.operand(st, fr, s[1])
            st.pc.append(v.t)
            return
        raise EngineAbort("statement %r" % (s,))

    def terminator(self, st, fr, term):
        k = term[0]
        if k == "goto":
            fr.bb = term[1]
            return None
        if k == "return":
            rv = fr.locals.get(0)
            v = rv.v if rv else UnitV()
            st.frames.pop()
            if fr.on_return:
                fr.on_return(self, st, v)
            if fr.stop:
                st.status, st.ret = "subreturn", v
                return [st]
            if not st.frames:
                st.status, st.ret = "return", v
                return [st]
            caller = st.frames[-1]
            if fr.dest is not None:
                self.write(st, fr.dest[0], fr.dest[1], v)
            if fr.ret_bb is None:
                st.status, st.msg = "diverged", "return into diverging call"
                return [st]
            caller.bb = fr.ret_bb
            return None
        if k == "unreachable":
            st.status, st.msg = "unreachable", "%s bb%d" % (fr.fn.name, fr.bb)
            return [st]
        if k == "resume":
            st.status, st.msg = "unwind", fr.fn.name
            return [st]
        if k == "assert":
            c = self.operand(st, fr, term[1])
            cond = c.t if term[2] else z3.Not(c.t)
            out = []
            bad = st.pc + [z3.Not(cond)]
            sat, _m = self.check(bad)
            if sat:
                p = st.clone()
                p.pc.append(z3.Not(cond))
                p.status, p.msg = "panic", "%s in %s bb%d" % (term[3], fr.fn.name, fr.bb)
                out.append(p)
            if self.feasible(st, [cond]):
                st.pc.append(cond)
                fr.bb = term[4]
                # `assert(!ovf)` passed: the checked result equals the mathematical one
                pl = term[1][1] if term[1][0] in ("copy", "move") else None
                if pl is not None and pl.proj and pl.proj[-1][0] == "field" and pl.proj[-1][1] == 1 and not term[2]:
                    bc, bp = self.resolve(st, fr, Place(pl.local, pl.proj[:-1]))
                    tup = self.read(st, bc, bp, None)
                    if isinstance(tup, AggV) and isinstance(tup.vname, tuple) and tup.vname[0] == "ovf":
                        tup.fields[0] = IntV(tup.vname[1], tup.vname[2])
                if not out:
                    return None
                out.append(st)
            return out
        if k == "switch":
            v = self.operand(st, fr, term[1])
            if isinstance(v, BoolV):
                t = z3.If(v.t, z3.IntVal(1), z3.IntVal(0))
            elif isinstance(v, IntV):
                t = v.t
            else:
                raise EngineAbort("switchInt on %r" % (v,))
            ts = z3.simplify(t)
            if z3.is_int_value(ts):
                val = ts.as_long()
                for kk, bb in term[2]:
                    if kk == val:
                        fr.bb = bb
                        return None
                if term[3] is None:
                    raise EngineAbort("switch without matching arm")
                fr.bb = term[3]
                return None
            out = []
            conds = [(t == kk, bb) for kk, bb in term[2]]
            if term[3] is not None:
                conds.append((z3.And(*[t != kk for kk, _ in term[2]]) if term[2] else z3.BoolVal(True), term[3]))
            feas = [(c, bb) for c, bb in conds if self.feasible(st, [c])]
            for i, (c, bb) in enumerate(feas):
                s2 = st if i == len(feas) - 1 else st.clone()
                s2.pc.append(c)
                s2.frames[-1].bb = bb
                out.append(s2)
            if not out:
                st.status, st.msg = "infeasible", "no feasible switch arm"
                return [st]
            return out if len(out) > 1 else None
        if k == "drop":
            cell, path = self.resolve(st, fr, term[1])
            v = self.read(st, cell, path, None)
            fr.bb = term[2]
            res = self.drop_value(st, v)
            self.write(st, cell, path, MovedV())
            return res
        if k == "call":
            return self.call(st, fr, term)
        raise EngineAbort("terminator %r" % (term,))

    # ---- drops
    def drop_value(self, st, v, depth=0):
        """run drop hooks for v (and recursively its owned parts); may push frames"""
        if v is None or isinstance(v, (MovedV, IntV, BoolV, UnitV, StrV, FnV, RefV)) or depth > 6:
            return None
        ty = getattr(v, "ty", "")
        for rx, h in self.drop_hooks:
            if rx.search(ty):
                r = h(self, st, v)
                if r is not None:
                    return r
                break
        if isinstance(v, AggV):
            for f in v.fields:
                r = self.drop_value(st, f, depth + 1)
                if r is not None:
                    raise EngineAbort("nested forking drop")
        if isinstance(v, OpaqueV) and isinstance(v.attrs.get("items"), list) and v.ty in ("Vec", "ListIter"):
            for f in v.attrs["items"]:
                r = self.drop_value(st, f, depth + 1)
                if r is not None:
                    raise EngineAbort("nested forking drop")
        return None

    # ---- calls
    def call(self, st, fr, term):
        _, dest, callee, argops, ret_bb = term
        args = [self.operand(st, fr, a) for a in argops]
        dcell, dpath = self.resolve(st, fr, dest)
        dty = fr.fn.locals.get(dest.local, "?") if not dest.proj else "?"
        # order: a lemma's own summaries, then the real code (crate-local, then sibling crates), then the fallback library
        h = self.find_summary(callee, fallbacks=False)
        if h is None:
            fn = self.find_fn(callee)
            # functions of the crate under analysis are executed (inlined) unless a lemma summarises them
            if fn is None:
                fn = self.find_sibling_fn(callee)
            if fn is not None and fn.blocks:
                self.push_call(st, fn, args, (dcell, dpath), ret_bb)
                return None
            h = self.find_summary(callee)
            if h is None:
                raise EngineAbort("no summary for callee %r (called from %s)" % (callee, fr.fn.name))
        outs = h(self, st, callee, args, dty)
        if isinstance(outs, Outcome):
            outs = [outs]
        if isinstance(outs, tuple) and outs and outs[0] == "inline":
            self.push_call(st, outs[1], outs[2], (dcell, dpath), ret_bb)
            return None
        if isinstance(outs, tuple) and outs and outs[0] == "states":
            # the summary already forked/advanced the state itself: [(state, ret, conds)]
            res = []
            for s2, r2, conds in outs[1]:
                if s2.status != "running":
                    res.append(s2)
                    continue
                if conds and not self.feasible(s2, conds):
                    continue
                s2.pc.extend(conds)
                f2 = s2.frames[-1]
                if ret_bb is None:
                    s2.status, s2.msg = "diverged", callee
                    res.append(s2)
                    continue
                c2, p2 = self.resolve(s2, f2, dest)
                self.write(s2, c2, p2, r2 if r2 is not None else UnitV())
                f2.bb = ret_bb
                res.append(s2)
            if not res:
                st.status, st.msg = "infeasible", "no feasible outcome of %s" % callee
                return [st]
            return res
        res = []
        feas = []
        for o in outs:
            if not o.conds or self.feasible(st, o.conds):
                feas.append(o)
        # values handed to the clones must be mapped into the clones' memory: park them in ghost
        st.ghost["_call"] = (args, [o.ret for o in feas])
        for i, o in enumerate(feas):
            s2 = st if i == len(feas) - 1 else st.clone()
            args2, rets2 = s2.ghost.pop("_call")
            f2 = s2.frames[-1]
            s2.pc.extend(o.conds)
            for e in o.events:
                s2.trace.append(e)
            if o.diverge:
                s2.status, s2.msg = "panic", o.diverge
                res.append(s2)
                continue
            if ret_bb is None:
                s2.status, s2.msg = "diverged", callee
                res.append(s2)
                continue
            c2, p2 = self.resolve(s2, f2, dest)
            self.write(s2, c2, p2, rets2[i] if rets2[i] is not None else UnitV())
            f2.bb = ret_bb
            if o.effect:
                o.effect(self, s2, args2)   # may push frames (e.g. run a closure now)
            res.append(s2)
        st.ghost.pop("_call", None)
        if not res:
            st.status, st.msg = "infeasible", "no feasible outcome of %s" % callee
            return [st]
        if len(res) == 1 and res[0].status == "running":
            return None if res[0] is st else res
        return res


# ----------------------------------------------------------------------------- loop invariants

def natural_loop(fn, header):
    """blocks of fn that are reachable from header and reach header again (non-cleanup)"""
    succ = {}
    for b, (stmts, term) in fn.blocks.items():
        if b in fn.cleanup or term is None:
            succ[b] = []
            continue
        k = term[0]
        if k == "goto":
            succ[b] = [term[1]]
        elif k == "switch":
            succ[b] = [bb for _, bb in term[2]] + ([term[3]] if term[3] is not None else [])
        elif k in ("drop",):
            succ[b] = [term[2]]
        elif k == "assert":
            succ[b] = [term[4]]
        elif k == "call":
            succ[b] = [term[4]] if term[4] is not None else []
        else:
            succ[b] = []
    reach = set()
    stack = [header]
    while stack:
        b = stack.pop()
        for s in succ.get(b, []):
            if s not in reach:
                reach.add(s)
                stack.append(s)
    # blocks that can reach header
    pred = {}
    for b, ss in succ.items():
        for s in ss:
            pred.setdefault(s, []).append(b)
    back = set()
    stack = [header]
    while stack:
        b = stack.pop()
        for p in pred.get(b, []):
            if p not in back:
                back.add(p)
                stack.append(p)
    return (reach & back) | {header}


def assigned_locals(fn, blocks):
    out = set()
    for b in blocks:
        stmts, term = fn.blocks[b]
        for s in stmts:
            if s[0] in ("assign", "setdisc"):
                out.add(s[1].local)
        if term and term[0] == "call":
            out.add(term[1].local)
    return out


class LoopSpec:
    """inductive treatment of one loop: check `inv` on entry, havoc the loop-assigned locals,
    assume `inv`, run one arbitrary iteration, check `inv` at the back edge and stop there."""

    def __init__(self, fn, header, inv, havoc_extra=None, keep=()):
        self.fn, self.header, self.inv, self.havoc_extra, self.keep = fn, header, inv, havoc_extra, set(keep)
        self.blocks = natural_loop(fn, header)
        self.locals = assigned_locals(fn, self.blocks) - self.keep
        self.obligations = []   # (kind, ok, model)


def install_loop(eng, spec):
    eng.loops = getattr(eng, "loops", {})
    eng.loops[(spec.fn.name, spec.header)] = spec


_orig_step = Engine.step_until_fork


def _step_with_loops(self, st):
    loops = getattr(self, "loops", None)
    if not loops:
        return _orig_step(self, st)
    while st.status == "running":
        fr = st.frames[-1]
        spec = loops.get((fr.fn.name, fr.bb))
        if spec is not None:
            seen = st.ghost.get(("loop", id(spec)), 0)
            inv = spec.inv(self, st, fr)
            ok, m = self.valid(st.pc, inv)
            spec.obligations.append(("entry" if seen == 0 else "preserved", ok, m, list(st.pc), inv))
            if seen == 0:
                st.ghost[("loop", id(spec))] = 1
                for l in sorted(spec.locals):
                    ty = fr.fn.locals.get(l)
                    cur = fr.locals.get(l)
                    if ty is None:
                        continue
                    if ty in INT_TYPES or ty == "bool":
                        fr.locals[l] = Cell(self.fresh(st, ty, "h%d" % l))
                    else:
                        fr.locals[l] = Cell(None)   # recomputed inside the iteration before use
                if spec.havoc_extra:
                    spec.havoc_extra(self, st, fr)
                st.pc.append(spec.inv(self, st, fr))
                st.trace.append(Event("loop-havoc", [], None, {"fn": fr.fn.name, "bb": fr.bb,
                                      "locals": {l: fr.locals[l].v for l in spec.locals if fr.locals.get(l) is not None}}))
                fr.visits = {}
            else:
                st.status, st.msg = "loop-back", "%s bb%d" % (fr.fn.name, fr.bb)
                return [st]
        fr = st.frames[-1]
        n = fr.visits.get(fr.bb, 0) + 1
        fr.visits[fr.bb] = n
        if n > self.loop_bound + 1:
            st.status, st.msg = "bound", "loop bound %d exceeded at %s bb%d" % (self.loop_bound, fr.fn.name, fr.bb)
            return [st]
        stmts, term = fr.fn.blocks[fr.bb]
        self.steps += 1
        for s in stmts:
            self.statement(st, fr, s)
        res = self.terminator(st, fr, term)
        if res is not None:
            return res
    return [st]


Engine.step_until_fork = _step_with_loops
